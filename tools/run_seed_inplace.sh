#!/bin/bash
# run_seed_inplace.sh <seed-id> [tier]: apply the seeded patch to /repo itself, run the property's check, undo.
S="$1"; TIER="${2:-quick}"; P="${S%%-*}"
cd /verif
git -C /repo diff --quiet || { echo "/repo is dirty, refusing"; exit 3; }
git -C /repo apply "/verif/seeded/$S/patch.diff" || { echo "patch does not apply"; exit 3; }
./check "$P" --tier "$TIER" --no-evidence > "/verif/.cache/logs/seed-$S.out" 2>&1; RC=$?
git -C /repo checkout -- .
echo "$S tier=$TIER rc=$RC $(grep -c '^VIOLATION' /verif/.cache/logs/seed-$S.out) violation line(s)"
grep '^VIOLATION\|^UNDECIDED' "/verif/.cache/logs/seed-$S.out" | head -5
exit $RC
