#!/usr/bin/env python3
"""Copy confirmed seeds from /tmp/seed/<Cxx>/seed_out/m<k> into /verif/seeded/<Cxx>-m<k>/ (patch.diff, demo.rs, meta.json)."""
import json, os, shutil, sys
for p in sys.argv[1:]:
    base = '/tmp/seed/%s/seed_out' % p
    if not os.path.isdir(base):
        continue
    for m in sorted(os.listdir(base)):
        d = os.path.join(base, m)
        cj = os.path.join(d, 'confirm.json')
        if not os.path.isfile(cj):
            continue
        c = json.load(open(cj))
        if not c.get('confirmed'):
            print('skip (not confirmed)', d, c)
            continue
        dst = '/verif/seeded/%s-%s' % (p, m)
        os.makedirs(dst, exist_ok=True)
        shutil.copy(os.path.join(d, 'patch.diff'), dst)
        shutil.copy(os.path.join(d, 'demo.rs'), dst)
        meta = json.load(open(os.path.join(d, 'meta.json')))
        meta['property'] = p
        meta['confirmed_by_main_session'] = {
            'script': 'tools/confirm_seed.sh (scratch worktree)',
            'demo_passes_on_clean_tree': c['demo_passes_clean'], 'demo_fails_with_patch': c['demo_fails_patched'],
            'existing_suite_failed_tests_with_patch': c['suite_failed'], 'existing_suite_passed_tests_with_patch': c['suite_passed'],
            'note': 'difficulty::basic_osu fails on the unmodified tree as well (BASELINE always_fail)'}
        json.dump(meta, open(os.path.join(dst, 'meta.json'), 'w'), indent=1)
        print('collected', dst)
