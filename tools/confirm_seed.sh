#!/bin/bash
# confirm_seed.sh <worktree> <mutant-dir>   -> writes <mutant-dir>/confirm.json
# Confirms independently of the seeding agent: demo passes on the clean tree, fails with the patch,
# and the existing test suite still passes with the patch (known-bad: difficulty::basic_osu; flaky: rng_mania_hitresults).
WT="$1"; M="$2"
cd "$WT" || exit 2
export CARGO_NET_OFFLINE=true
git checkout -q -- . ; rm -f tests/seed_demo.rs
cp "$M/demo.rs" tests/seed_demo.rs
cargo test --offline --test seed_demo > "$M/confirm_clean.log" 2>&1; RC_CLEAN=$?
git apply "$M/patch.diff" > "$M/confirm_apply.log" 2>&1; RC_APPLY=$?
cargo test --offline --test seed_demo > "$M/confirm_patched.log" 2>&1; RC_PATCHED=$?
COMPILED=$(grep -c "^running [0-9]* test" "$M/confirm_patched.log")
rm -f tests/seed_demo.rs
cargo test --offline --no-fail-fast > "$M/confirm_suite.log" 2>&1
FAILED=$(grep -E "^test .* \.\.\. FAILED" "$M/confirm_suite.log" | sed -E 's/^test (.*) \.\.\. FAILED/\1/' | sort -u | tr '\n' ' ')
NPASS=$(grep -E "^test .* \.\.\. ok" "$M/confirm_suite.log" | wc -l)
git checkout -q -- . 
python3 - "$M" "$RC_CLEAN" "$RC_APPLY" "$RC_PATCHED" "$COMPILED" "$FAILED" "$NPASS" <<'PY'
import json,sys
m,rc_clean,rc_apply,rc_patched,compiled,failed,npass=sys.argv[1:8]
failed=[f for f in failed.split() if f]
unexpected=[f for f in failed if not (f.endswith('basic_osu') or f.endswith('rng_mania_hitresults'))]
ok = rc_clean=='0' and rc_apply=='0' and rc_patched!='0' and int(compiled)>0 and not unexpected and int(npass)>=60
json.dump(dict(demo_passes_clean=rc_clean=='0',patch_applies=rc_apply=='0',demo_fails_patched=(rc_patched!='0' and int(compiled)>0),
  suite_failed=failed,suite_unexpected_failures=unexpected,suite_passed=int(npass),confirmed=ok),open(m+'/confirm.json','w'),indent=1)
print(m, 'CONFIRMED' if ok else 'NOT CONFIRMED', failed)
PY
