#!/bin/bash
# run_seed.sh <seed-id e.g. C18-m1> [tier] [extra check args]
# Runs the property's check against a patched *copy* of /repo's working tree (VERIF_REPO), so that /repo itself stays
# untouched and several seeds can be evaluated concurrently with normal checks. (Equivalent to
# `git -C /repo apply patch; ./check; git -C /repo checkout -- .`, which is what run_seed_inplace.sh does.)
S="$1"; TIER="${2:-quick}"; P="${S%%-*}"; shift; shift
D=$(mktemp -d /tmp/seedrun-$S-XXXX)
rsync -a --exclude /target --exclude /.git /repo/ "$D/repo/"
( cd "$D/repo" && git init -q . 2>/dev/null && git apply "/verif/seeded/$S/patch.diff" ) || { echo "$S: patch does not apply"; rm -rf "$D"; exit 3; }
rm -rf "$D/repo/.git"
mkdir -p /verif/.cache/logs
cd /verif
VERIF_REPO="$D/repo" ./check "$P" --tier "$TIER" --no-evidence "$@" > "/verif/.cache/logs/seed-$S.out" 2>&1; RC=$?
rm -rf "$D"
echo "$S tier=$TIER rc=$RC $(grep -c '^VIOLATION' /verif/.cache/logs/seed-$S.out) violation line(s)"
grep '^VIOLATION\|^UNDECIDED' "/verif/.cache/logs/seed-$S.out" | head -5
exit $RC
