#!/usr/bin/env python3
"""Regenerate /verif/MANIFEST.json from the table below + the obligation registry (so that a property is only ever
claimed when at least one obligation is registered for it)."""
import json, os, sys
sys.path.insert(0, '/verif/engine')
import registry

TECH = "contract-based deductive verification: Kani/CBMC harness contracts on the real crate (scratch copy of the working tree) and Verus on mechanically extracted functions"
CLAIMS = {
 "C02": ("other", "Bounded stand-ins only: from every state of the gradual calculators' representation invariant (object count fixed per harness, position and nth argument symbolic) one next()/nth(k) processes exactly the difficulty objects of the consumed hit objects, in order, and the i-th value carries the counts of exactly the first i objects; each mode's constructor converts with the same (mode, mods) as the one-shot path. Equality of the float attributes rests on 'same function, same prefix' (assumption A-F) and is not proved.", "DESIGN.md §5 C02",
         "skill process/eval stubbed (frame assumed); new() establishing the invariant not proved; N<=3 quick, <=4 thorough; taiko healthy class only, F3/F4 known findings"),
 "C06": ("proof", "Proof-level core: TandemSorter::sort/toggle_marks proved by Verus on the extracted real code for all lengths (objects and hit sounds are permuted identically; pairing lemma). Bounded stand-ins for new_stable (n=5) and control-point insertion. Decoder totality / byte-string claims are outside the technique and not claimed.", "DESIGN.md §5 C06",
         "vstd + two assume_specifications (slice::swap, leading_zeros); Box<[usize]> verified as Vec<usize>; std sort_by exercised only in the bounded harness"),
 "C07": ("proof", "Proof on object-free maps for the whole dispatch decision: convert/convert_ref/convert_mut agree on Ok/Err class, payload and resulting map for all 32 (mode, is_convert, target) combinations and all legacy mod bits; every mode entry point (difficulty, strains, gradual) first calls convert_ref(own mode, difficulty mods) and propagates its error (call-site contract via recording stub).", "DESIGN.md §5 C07",
         "maps without objects (the decision prefix does not read them); equality of downstream float results is assumption A-F"),
 "C12": ("proof", "Postcondition of generate_state (C12 clauses 1-6) proved by Kani/CBMC on the real functions of all four modes for every u32 value of every optional field on the accuracy-free paths and the loop-free accuracy arms; attribute counts <= 2^20. Accuracy search arms (float loops) are thorough-tier / bounded.", "DESIGN.md §5 C12",
         "legacy mods only; accuracy in [0,1] non-NaN; catch provided counts <= 2^30; Kani/CBMC trusted"),
 "C15": ("other", "Bounded stand-ins: iterator-protocol obligations (len/size_hint == remaining; next; Iterator::nth returns None when fewer than k+1 values remain; invariant preserved so exhausted stays exhausted without overflow) checked from every state of the representation invariant with the object count fixed per harness (0..3 quick, 4 thorough) and idx / k fully symbolic, for osu, catch, mania and the healthy taiko class; F3/F4 (taiko) are known findings.", "DESIGN.md §5 C15",
         "skill process/eval stubbed; inductive base case (new establishes the invariant) not proved; performance-side nth/last covered by C03's obligations"),
 "C18": ("proof", "Complete loop-free Kani proofs: every Performance setter equals the same setter applied to the Difficulty (or is the identity where documented irrelevant) in all four modes; Difficulty survives inspect()/into_difficulty() field-wise (clock rate bit-exact); clamps to documented bounds for all f32/f64 bit patterns.", "DESIGN.md §5 C18",
         "mods = GameMods::Legacy(bits); NaN attribute overrides excluded (PartialEq not reflexive); builders created from default attributes"),
}
NA = {
 "C01": "determinism over call histories is a 2-safety hyperproperty of the whole API (and bpm() depends on HashMap RandomState iteration order): no single-call contract within reach of Verus or Kani expresses it; see DESIGN.md §5 C01",
 "C04": "the claim is equality of two executions of the same float difficulty pipeline; the only code specific to it (MapOrAttrs::insert_attrs / From impls) has no arithmetic to put under contract; see DESIGN.md §5 C04",
 "C20": "Kani has no thread support and Verus would need its permission types threaded through Rc<RefCell>/Arc<RwLock> code; absence of statics and Send/Sync are type-checker facts, not deductive obligations; see DESIGN.md §5 C20",
}
NOT_BUILT = "no contract obligation is registered for this property yet (not built); see DESIGN.md §5"

units = registry.load()
have = set()
for u in units:
    for o in u.obligations:
        have.update(o.props)
checks, na = [], []
for i in range(1, 21):
    pid = "C%02d" % i
    if pid in CLAIMS and pid in have:
        cat, text, ref, note = CLAIMS[pid]
        checks.append({
            "property_id": pid, "quick_cmd": "./check %s --tier quick" % pid, "thorough_cmd": "./check %s --tier thorough" % pid,
            "evidence_file": "/verif/evidence/%s.json" % pid, "replay_cmd_template": "./check --replay {path}",
            "engine": "contract-engine",
            "level_claimed": {"category": cat, "text": text, "design_ref": ref},
            "level_note": note, "technique": TECH})
    else:
        na.append({"property_id": pid, "reason": NA.get(pid, NOT_BUILT)})
m = {
 "version": 1,
 "setup_cmd": "./setup.sh",
 "hooks": {
  "guard": "cfg(kani)",
  "enable": "no hook is committed to /repo: every check copies /repo's current working tree to a scratch directory and appends `#[cfg(kani)] #[path=...] mod __verif_<unit>;` lines there (cfg(kani) is set by cargo-kani itself); Verus units are extracted from /repo's working tree on every run",
  "baseline_off_cmd": "cd /repo && cargo test --workspace --no-fail-fast --offline",
  "source_commits": [],
  "add_only": True},
 "engines": [{"name": "contract-engine", "path": "/verif/engine/main.py", "serves_properties": [c["property_id"] for c in checks],
              "kind_free_text": TECH}],
 "checks": checks,
 "notes": "exit 0 = all obligations discharged (KNOWN-FINDING lines allowed); exit 1 = VIOLATION lines; exit 2 = undecided (lost anchor / timeout / unsupported construct), never an alarm. See DESIGN.md.",
 "not_applicable": na,
}
json.dump(m, open('/verif/MANIFEST.json', 'w'), indent=1)
print("claimed:", [c["property_id"] for c in checks])
