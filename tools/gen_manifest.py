#!/usr/bin/env python3
"""Regenerate /verif/MANIFEST.json from the table below + the obligation registry (so that a property is only ever
claimed when at least one obligation is registered for it)."""
import json, os, sys
sys.path.insert(0, '/verif/engine')
import registry

TECH = "contract-based deductive verification: Kani/CBMC harness contracts on the real crate (scratch copy of the working tree) and Verus on mechanically extracted functions"
CLAIMS = {
 "C02": ("other", "Bounded stand-ins plus call-site proofs: from every state of the gradual calculators' representation invariant (object count fixed per harness, position and nth argument symbolic) one next()/nth(k) processes exactly the difficulty objects of the consumed hit objects, in order, and the i-th value carries the counts of exactly the first i objects; each mode's constructor converts with the same (mode, mods) as the one-shot path and catch converts its objects with the same arguments on both paths. Equality of the float attributes rests on 'same function, same prefix' (assumption A-F) and is not proved.", "DESIGN.md §5 C02",
         "skill process/eval stubbed (frame assumed); new() establishing the invariant only on small maps (mania two-object maps, taiko hhh / hhnh); N<=3 quick, <=4 thorough; taiko healthy class only, F3/F4 known findings; mania hold-note combo under clock rates (F7) not checked"),
 "C03": ("other", "Bounded stand-ins: for osu, mania, catch (0 or 2 objects quick, 3 thorough) and taiko (three hits), from every invariant state and any score state / caller Difficulty, GradualPerformance::next/nth/last consume min(n+1, remaining) objects, return None exactly when nothing remains, and the performance builder whose calculate() is invoked equals Performance(attrs_i).difficulty(D).passed_objects(i).state(S) field for field (calculate() replaced by a recording stub). Plus the proof that Performance::passed_objects forwards in all modes.", "DESIGN.md §5 C03",
         "pp calculation itself stubbed (same function on both paths: A-F); skill process/eval stubbed"),
 "C05": ("proof", "Side conditions only: absence of panics (index, overflow, unwrap, unreachable) inside every function under contract for its stated precondition, checked by Kani on each harness; BananaShower::new terminates within 18 iterations without i32 overflow on the realistic domain (unwinding assertions). Whole-decoder / whole-pipeline totality is outside the technique and not claimed.", "DESIGN.md §5 C05",
         "only the functions listed in the evidence; spinner length <= 800 ms for the termination obligation; F8 (f32 absorption beyond 2^30 ms) observed in the design phase is outside the realistic domain and not checked"),
 "C06": ("proof", "Proof-level core: TandemSorter::sort/toggle_marks proved by Verus on the extracted real code for all lengths (objects and hit sounds are permuted identically; pairing lemma); control-point clamps for all f64 bit patterns. Bounded stand-ins for new_stable (n=5) and control-point insertion (vector length 0..3, any f64 times). Decoder totality / byte-string claims are outside the technique and not claimed.", "DESIGN.md §5 C06",
         "vstd + two assume_specifications (slice::swap, leading_zeros); Box<[usize]> verified as Vec<usize>; std sort_by / binary_search exercised only in the bounded harnesses"),
 "C07": ("proof", "Proof on object-free maps for the whole dispatch decision: convert/convert_ref/convert_mut agree on Ok/Err class, payload and resulting map for all 32 (mode, is_convert, target) combinations and all legacy mod bits; every mode entry point (difficulty, strains, gradual) first calls convert_ref(own mode, difficulty mods) and propagates its error (call-site contract via recording stub).", "DESIGN.md §5 C07",
         "maps without objects (the decision prefix does not read them); equality of downstream float results is assumption A-F; Performance::try_mode not covered"),
 "C08": ("proof", "Partial, proof for what is claimed: a mod-provided attribute (lazer DifficultyAdjust) is used exactly as given and an explicit override always wins (ModsDependentKind::value, all bit patterns); Difficulty::get_clock_rate falls back to the mods' rate and hardrock offsets to the HR mod. Equivalence of legacy / intermode / lazer mod containers could not be brought within reach (BTreeSet-backed containers do not finish in CBMC) and is not claimed.", "DESIGN.md §5 C08",
         "legacy mod bits only; representation equivalence and lazer rate mods (F9) not checked"),
 "C09": ("proof", "Partial, proof for what is claimed: every ScoreState::accuracy (four modes, three osu! origins) is non-NaN, finite and >= 0 for all counts <= 2^20 incl. all-zero; a zero-hit osu! play is worth exactly 0 pp for arbitrary attributes. Finiteness/sign of stars and pp in general needs powf/ln/exp and is not claimed.", "DESIGN.md §5 C09",
         "counts <= 2^20; accuracy <= 1 only bounded (counts <= 63, thorough tier); taiko/catch/mania zero-hit pp not covered"),
 "C10": ("other", "Bounded stand-ins for the raw_strains feature only: every method of the compact StrainsVec (push, len, iter, sum, retain_non_zero, transmute_into_vec) equals the plain Vec<f64> semantics for every zero/positive pattern of up to 3 pushes with values symbolic over their whole class; the union entry type is proved for all 2^64 bit patterns. The sync feature (Rc/Arc wrappers) and four-way build equality are outside the technique.", "DESIGN.md §5 C10",
         "A-NONNEG: skills push only non-negative peaks; into_vec / sort_desc not covered (std sort does not finish)"),
 "C11": ("proof", "Partial: proof that every unsafe union read in StrainsEntry is of the live field for all 2^64 bit patterns and that push()'s guard implies new_value's safety precondition for every f64; the decoder's borrowed-pointer scratch buffer is empty after every use including failed lines; clock-rate bits are never zero (NonZeroU64::new_unchecked). Bounded: no UB under Kani's memory model for StrainsVec operation sequences of <= 3 pushes. Self-referential gradual structs (lifetime transmutes) are not claimed.", "DESIGN.md §5 C11",
         "Kani memory model; sequences <= 3 pushes; gradual calculators' lifetime extension and moves not covered"),
 "C12": ("proof", "Postcondition of generate_state (C12 clauses 1-6) proved by Kani/CBMC on the real functions of all four modes for every u32 value of every optional field on the accuracy-free paths and the loop-free accuracy arms; attribute counts <= 2^20. The osu! accuracy search arms with one result given are complete proofs as well (the accuracy helper is under a verified function contract and used via stub_verified); the osu! no-result arm and the taiko / catch search arms are bounded; mania's search arm is not covered. ScoreState conversions round-trip (proof).", "DESIGN.md §5 C12",
         "legacy mods only; accuracy in [0,1] non-NaN; catch provided counts <= 2^30; Kani/CBMC trusted"),
 "C13": ("other", "Bounded stand-ins for two of the four modes: taiko (max_combo <= 6 quick, <= 12 thorough) and catch tiny droplets (counts <= 4 quick, <= 10 thorough): the generated state has the given misses, distributes all remaining objects, and its accuracy is at least as close to the requested one as that of EVERY other distribution (symbolic competitor, no enumeration), for every accuracy in [0,1] and every miss count. osu! (2-D window plus slider accuracy) and mania (5-D) are not covered.", "DESIGN.md §5 C13",
         "IEEE doubles handled bit-precisely by CBMC; small attribute shapes only; osu and mania not covered"),
 "C14": ("proof", "Partial: passed_objects(n) limits to exactly n for every n incl. 0 and is unlimited when unset; catch's limited object counter obeys its per-call contract (Kani, all values) and by induction (Verus lemma, unbounded) counts min(n, total), monotonically and saturating; taiko's counting closure inside the real create_difficulty_objects gives max_combo == min(n, hits) (bounded, <= 3 objects); ManiaObject::new counts per hit-object kind (circle: 1 combo; spinner / hold: one hold note and 1 + floor(duration/100) combo; slider: one hold note, curve length stubbed); gradual values count exactly the first i objects (bounded, from C02's obligations). osu!'s counting closure and mania's n_objects call site are not under contract (attempts run out of memory).", "DESIGN.md §5 C14",
         "osu convert_objects does not finish in CBMC even for one object; mania n_objects vs. map rewrites (Invert) not checked"),
 "C15": ("proof", "Unbounded Verus proofs on the mechanically extracted real code of the osu!, catch, mania and taiko (healthy class: at least three objects, first two are hits) gradual difficulty calculators: next(), Iterator::nth() and len() - and, modularly on top of nth's contract, the gradual performance calculators' nth/next/last/len - obey the protocol for EVERY object count, position and n (Some iff enough values remain, exactly min(n+1, remaining) values consumed, nth counts the same objects as n+1 next() calls, invariant preserved so an exhausted calculator stays exhausted, all indices in bounds, no overflow; taiko additionally: the i-th value has max_combo == i). Bounded Kani stand-ins (object count fixed per harness, position and n symbolic) for the same clauses on the un-extracted code incl. taiko's healthy class and the gradual performance next/nth/last of all four modes; taiko short maps / non-hit-first maps are known findings F4/F3.", "DESIGN.md §5 C15",
         "callees of next/nth (skill process, eval, combo/count increments, clone) are external_body contracts in Verus resp. stubs in Kani; rewrites R10/R11 model std's skip/take/zip/filter; the inductive base case (new establishes the invariant) is not proved; taiko next/nth bounded only"),
 "C16": ("other", "Partial, bounded: the open section's peak is always appended before export or aggregation (so all skills report the same number of sections), strains and difficulty are computed on the same conversion (call-site contract), StrainsVec iter/sum/retain/transmute equal the plain list for <= 3 pushes. The decay-weighted aggregation itself (std sort) and finiteness of peaks are not covered.", "DESIGN.md §5 C16",
         "difficulty_value (sort) did not finish and is not claimed; peaks' finiteness is float pipeline"),
 "C17": ("proof", "Partial: CS/HP given with with_mods=true are reported back unchanged for all mods and clock rates (proof); ok/meh windows exist exactly per mode (proof); HR never lowers / EZ never raises an attribute on [0,10] (proof); with_mods values give clock-rate independent windows (bounded grid); the osu! and catch difficulty setups store the builder's AR/HP/hit windows unchanged (call-site proofs); monotonicity of the five OD window tables over the f32 input domain (thorough tier; the AR table does not finish). build()/hit_windows() float agreement and the AR/OD round trip are not claimed.", "DESIGN.md §5 C17",
         "legacy mods; round trip and 1/clock_rate scaling are float identities the solver does not finish"),
 "C18": ("proof", "Complete loop-free Kani proofs: every Performance setter equals the same setter applied to the Difficulty (or is the identity where documented irrelevant) in all four modes; Difficulty survives inspect()/into_difficulty() field-wise (clock rate bit-exact); clamps to documented bounds for all f32/f64 bit patterns.", "DESIGN.md §5 C18",
         "mods = GameMods::Legacy(bits); NaN attribute overrides excluded (PartialEq not reflexive); builders created from default attributes"),
 "C19": ("proof", "Partial: taiko's tandem sort keeps sounds paired (Verus, all lengths); column_to_pos / ManiaObject::column are inverse for every key count a conversion can produce and column(x,t) < t for all f32 x (proofs); random columns stay in range for every generator state (proof); stair patterns stay below the key count (bounded span counts); the deterministic arms of HitObjectPatternGenerator::generate_core (REVERSE, FORCE_STACK, CYCLE, STAIR, REVERSE_STAIR) place notes only in regular columns, one per column (bounded: 4K/7K/8K); path-object notes have duration end-start >= 0 (proof); effect points stay strictly ordered (bounded); catch conversion changes only mode and is_convert (proof on object-free maps). Output sortedness of the mania converter and non-negative durations are not claimed.", "DESIGN.md §5 C19",
         "random pattern arms and the other generators are not under contract; mania legacy sort not verified"),
}
NA = {
 "C01": "determinism over call histories is a 2-safety hyperproperty of the whole API (and bpm() depends on HashMap RandomState iteration order): no single-call contract within reach of Verus or Kani expresses it; see DESIGN.md §5 C01",
 "C04": "the claim is equality of two executions of the same float difficulty pipeline; the only code specific to it (MapOrAttrs::insert_attrs / From impls) has no arithmetic to put under contract; see DESIGN.md §5 C04",
 "C20": "Kani has no thread support and Verus would need its permission types threaded through Rc<RefCell>/Arc<RwLock> code; absence of statics and Send/Sync are type-checker facts, not deductive obligations; see DESIGN.md §5 C20",
}
NOT_BUILT = "no contract obligation is registered for this property yet (not built); see DESIGN.md §5"

units = registry.load()
have = set()
for u in units:
    for o in u.obligations:
        have.update(o.props)
checks, na = [], []
for i in range(1, 21):
    pid = "C%02d" % i
    if pid in CLAIMS and pid in have:
        cat, text, ref, note = CLAIMS[pid]
        checks.append({
            "property_id": pid, "quick_cmd": "./check %s --tier quick" % pid, "thorough_cmd": "./check %s --tier thorough" % pid,
            "evidence_file": "/verif/evidence/%s.json" % pid, "replay_cmd_template": "./check --replay {path}",
            "engine": "contract-engine",
            "level_claimed": {"category": cat, "text": text, "design_ref": ref},
            "level_note": note, "technique": TECH})
    else:
        na.append({"property_id": pid, "reason": NA.get(pid, NOT_BUILT)})
m = {
 "version": 1,
 "setup_cmd": "./setup.sh",
 "hooks": {
  "guard": "cfg(kani)",
  "enable": "no hook is committed to /repo: every check copies /repo's current working tree to a scratch directory and appends `#[cfg(kani)] #[path=...] mod __verif_<unit>;` lines there (cfg(kani) is set by cargo-kani itself); Verus units are extracted from /repo's working tree on every run",
  "baseline_off_cmd": "cd /repo && cargo test --workspace --no-fail-fast --offline",
  "source_commits": [],
  "add_only": True},
 "engines": [{"name": "contract-engine", "path": "/verif/engine/main.py", "serves_properties": [c["property_id"] for c in checks],
              "kind_free_text": TECH}],
 "checks": checks,
 "notes": "exit 0 = all obligations discharged (KNOWN-FINDING lines allowed); exit 1 = VIOLATION lines; exit 2 = undecided (lost anchor / timeout / unsupported construct), never an alarm. See DESIGN.md.",
 "not_applicable": na,
}
json.dump(m, open('/verif/MANIFEST.json', 'w'), indent=1)
print("claimed:", [c["property_id"] for c in checks])
