#!/bin/bash
# mutate_run.sh <name> <sed-expr> <file-rel> <prop> <only-list>: ad-hoc mutation run on a patched copy (VERIF_REPO)
name=$1; sedexpr=$2; f=$3; prop=$4; only=$5
D=$(mktemp -d /tmp/mut-$name-XXXX)
rsync -a --exclude /target --exclude /.git /repo/ $D/repo/
sed -i "$sedexpr" $D/repo/$f
echo "--- $name"; diff /repo/$f $D/repo/$f | head -6
(cd /verif && VERIF_REPO=$D/repo ./check $prop --no-evidence --only $only 2>&1 | grep "^VIOLATION\|^UNDEC\|tier=")
rm -rf $D
