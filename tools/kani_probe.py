#!/usr/bin/env python3
"""kani_probe.py <unit> <harness> [secs]: run one harness with CBMC's verbose output for `secs` and summarise which
loops are being unwound (to find what makes a harness expensive)."""
import os, re, sys, collections
sys.path.insert(0, '/verif/engine')
import registry, kanirun, common
unit, harness = sys.argv[1], sys.argv[2]
secs = int(sys.argv[3]) if len(sys.argv) > 3 else 120
units = [u for u in registry.load() if u.name == unit]
sc = '/tmp/kaniprobe-%s' % harness
common.rmtree(sc); os.makedirs(sc)
kanirun.prepare(sc, units)
full = units[0].module_path() + '::' + harness
cmd = ['cargo', 'kani'] + kanirun.KANI_FLAGS + ['--exact', '--harness', full, '--output-format', 'old']
rc, out, wall, to = common.run(cmd, cwd=sc + '/repo', env=common.offline_env({'CARGO_TARGET_DIR': common.KANI_TARGET}), timeout=secs)
c = collections.Counter()
mx = {}
for m in re.finditer(r'Unwinding loop (\S+) iteration (\d+) file (\S+) line (\d+)[^\n]*function ([^\n]*?) thread', out):
    key = (m.group(5)[:110], m.group(3).split('/')[-1] + ':' + m.group(4))
    c[key] += 1
    mx[key] = max(mx.get(key, 0), int(m.group(2)))
for k, v in c.most_common(25):
    print(v, 'max-iter', mx[k], k)
print('timed out' if to else 'finished', round(wall), 's; tail:')
print('\n'.join(l for l in out.splitlines()[-12:] if not l.startswith('Unwinding'))[-1500:])
common.rmtree(sc)
