//@ unit: genstate_taiko
//@ target: src/taiko/performance/mod.rs
//@ assume: A-BOUND: attrs.max_combo <= 2^20; provided n300/n100/misses/combo/passed_objects range over all of u32
//@ assume: mods are GameMods::Legacy(bits) with all 2^32 bit patterns
use super::*;
use crate::taiko::TaikoDifficultyAttributes;

const CAP: u32 = 1 << 20;

fn any_attrs() -> TaikoDifficultyAttributes {
    let mut a = TaikoDifficultyAttributes::default();
    a.max_combo = kani::any();
    kani::assume(a.max_combo <= CAP);
    a
}

fn any_opt() -> Option<u32> {
    if kani::any() {
        Some(kani::any())
    } else {
        None
    }
}

fn any_difficulty() -> Difficulty {
    let bits: u32 = kani::any();
    let mut d = Difficulty::new().mods(bits);
    if kani::any() {
        d = d.passed_objects(kani::any());
    }
    if kani::any() {
        d = d.lazer(kani::any());
    }
    d
}

fn shaped(given: Option<bool>) -> Option<u32> {
    // `given` is a *concrete* flag in the accuracy harnesses so that CBMC prunes the arms of other shapes
    match given {
        Some(true) => Some(kani::any()),
        Some(false) => None,
        None => any_opt(),
    }
}

fn any_builder(attrs: &TaikoDifficultyAttributes, acc: Option<f64>, g300: Option<bool>, g100: Option<bool>) -> TaikoPerformance<'static> {
    TaikoPerformance {
        map_or_attrs: MapOrAttrs::Attrs(attrs.clone()),
        difficulty: any_difficulty(),
        combo: any_opt(),
        acc,
        hitresult_priority: if kani::any() { HitResultPriority::BestCase } else { HitResultPriority::WorstCase },
        n300: shaped(g300),
        n100: shaped(g100),
        misses: any_opt(),
    }
}

fn post(pre: &TaikoPerformance<'_>, a: &TaikoDifficultyAttributes, s: &TaikoScoreState, after: &TaikoPerformance<'_>) {
    let passed = pre.difficulty.get_passed_objects();
    let n = if (a.max_combo as usize) < passed { a.max_combo } else { passed as u32 };
    assert!(s.misses <= n, "C12.1 misses <= objects");
    if let Some(m) = pre.misses {
        assert!(s.misses == cmp::min(m, n), "C12.1 provided misses clamped to objects");
    } else {
        assert!(s.misses == 0, "C12.1 misses default 0");
    }
    let room = n - s.misses;
    let all_given = pre.n300.is_some() && pre.n100.is_some();
    if let Some(r) = pre.n300 {
        if r <= room {
            assert!(if all_given { s.n300 >= r } else { s.n300 == r }, "C12.2 provided n300 kept");
        }
    }
    if let Some(r) = pre.n100 {
        if r <= room {
            assert!(if all_given { s.n100 >= r } else { s.n100 == r }, "C12.2 provided n100 kept");
        }
    }
    let provided: u64 = pre.n300.unwrap_or(0) as u64 + pre.n100.unwrap_or(0) as u64 + pre.misses.unwrap_or(0) as u64;
    if provided <= n as u64 {
        assert!(s.n300 + s.n100 + s.misses == n, "C12.3 hit results add up to objects");
    }
    assert!(s.n300 <= n && s.n100 <= n, "C12.3 each result <= objects");
    assert!(s.max_combo <= a.max_combo.saturating_sub(s.misses), "C12.4 combo <= max_combo - misses");
    if let Some(c) = pre.combo {
        if c <= a.max_combo.saturating_sub(s.misses) {
            assert!(s.max_combo == c, "C12.2 provided combo kept");
        }
    }
    assert!(after.combo == Some(s.max_combo) && after.misses == Some(s.misses), "C12.6 builder stores generated combo/misses");
    assert!(after.n300 == Some(s.n300) && after.n100 == Some(s.n100), "C12.6 builder stores generated results");
    assert!(matches!(after.map_or_attrs, MapOrAttrs::Attrs(_)), "C12.6 attributes kept");
    assert!(after.hitresult_priority == pre.hitresult_priority && after.acc == pre.acc, "C12.6 frame: priority/acc untouched");
}

fn check(acc: Option<f64>, g300: Option<bool>, g100: Option<bool>) {
    let a = any_attrs();
    let mut b = any_builder(&a, acc, g300, g100);
    let pre = b.clone();
    kani::cover!(pre.misses.is_some() && pre.combo.is_none());
    let s1 = match b.generate_state() {
        Ok(s) => s,
        Err(_) => {
            assert!(false, "C12 generate_state on attributes cannot fail");
            return;
        }
    };
    post(&pre, &a, &s1, &b);
    // (5) idempotence
    let mid = b.clone();
    match b.generate_state() {
        Ok(s2) => {
            assert!(s1 == s2, "C12.5 second generate_state returns the same state");
            assert!(b == mid, "C12.5 second generate_state leaves the builder unchanged");
        }
        Err(_) => assert!(false, "C12.5 second generate_state cannot fail"),
    }
}

//@ obl: id=U7.taiko.genstate.noacc harness=u7_taiko_genstate_noacc props=C12,C05 tier=quick kind=proof
//@ fns: TaikoPerformance::generate_state, TaikoDifficultyAttributes::max_combo, Difficulty::get_passed_objects
//@ bound: loop-free path; all u32 values of the optional fields; max_combo <= 2^20
//@ clause: taiko generate_state without accuracy: C12 (1) misses' = min(misses,N) with N = min(passed, max_combo); (2) provided results/combo that fit are kept; (3) sum provided <= N ==> n300'+n100'+misses' == N; (4) combo' <= max_combo - misses'; (5) idempotent; (6) builder holds the generated values; no overflow / panic
#[kani::proof]
fn u7_taiko_genstate_noacc() {
    check(None, None, None);
}

fn any_acc() -> f64 {
    // what TaikoPerformance::accuracy() stores for any non-NaN argument: clamp(0,100)/100
    let acc: f64 = kani::any();
    kani::assume(acc >= 0.0 && acc <= 1.0);
    acc
}

macro_rules! acc_given {
    ($name:ident, $g300:expr, $g100:expr) => {
        #[kani::proof]
        fn $name() {
            check(Some(any_acc()), Some($g300), Some($g100));
        }
    };
}

//@ obl: id=U7.taiko.genstate.acc_300_100 harness=u7_taiko_genstate_acc_300_100 props=C12 tier=quick kind=proof
//@ fns: TaikoPerformance::generate_state
//@ bound: loop-free arm; accuracy any value in [0,1] (NaN excluded: accuracy(NaN) is outside the contract)
//@ clause: taiko generate_state with accuracy, n300 and n100 given: C12 clauses (1)-(6)
acc_given!(u7_taiko_genstate_acc_300_100, true, true);
//@ obl: id=U7.taiko.genstate.acc_300 harness=u7_taiko_genstate_acc_300 props=C12 tier=quick kind=proof
//@ fns: TaikoPerformance::generate_state
//@ bound: loop-free arm; accuracy any value in [0,1]
//@ clause: taiko generate_state with accuracy and n300 given: C12 clauses (1)-(6)
acc_given!(u7_taiko_genstate_acc_300, true, false);
//@ obl: id=U7.taiko.genstate.acc_100 harness=u7_taiko_genstate_acc_100 props=C12 tier=quick kind=proof
//@ fns: TaikoPerformance::generate_state
//@ bound: loop-free arm; accuracy any value in [0,1]
//@ clause: taiko generate_state with accuracy and n100 given: C12 clauses (1)-(6)
acc_given!(u7_taiko_genstate_acc_100, false, true);

// ---- accuracy search arm (no n300 / n100 given): C12 clauses + C13 optimality against a symbolic competitor ---------

fn acc_search(cap: u32) {
    let mut a = TaikoDifficultyAttributes::default();
    a.max_combo = kani::any();
    kani::assume(a.max_combo <= cap);
    let acc = any_acc();
    let mut b = any_builder(&a, Some(acc), Some(false), Some(false));
    let pre = b.clone();
    let s = match b.generate_state() {
        Ok(s) => s,
        Err(_) => {
            assert!(false, "C12 generate_state on attributes cannot fail");
            return;
        }
    };
    post(&pre, &a, &s, &b);
    // C13: the given number of misses, and no other split of the remaining hits is closer to the requested accuracy
    let passed = pre.difficulty.get_passed_objects();
    let n = if (a.max_combo as usize) < passed { a.max_combo } else { passed as u32 };
    let room = n - s.misses;
    assert!(s.n300 + s.n100 == room, "C13 all non-missed objects are distributed");
    let x: u32 = kani::any();
    kani::assume(x <= room);
    let chosen = (acc - accuracy(s.n300, s.n100, s.misses)).abs();
    let other = (acc - accuracy(x, room - x, s.misses)).abs();
    assert!(chosen <= other, "C13 generated taiko hit results are at least as close to the requested accuracy as any other distribution");
}

//@ obl: id=U7.taiko.genstate.acc_search.n6 harness=u7_taiko_genstate_acc_search_n6 props=C12,C13 tier=quick kind=bounded budget=900
//@ fns: TaikoPerformance::generate_state (accuracy search arm), accuracy (taiko::performance)
//@ bound: bounded: max_combo <= 6; accuracy any value in [0,1]; misses / combo / passed_objects any u32; the search loop (floor..=ceil) is closed by unwind 5, certified by the unwinding assertion; the competitor distribution is symbolic (no enumeration)
//@ clause: taiko generate_state with accuracy and no hit results: C12 clauses (1)-(4),(6); C13: misses as given, n300'+n100' == remaining objects, and |acc - accuracy(state')| <= |acc - accuracy(x, remaining-x, misses)| for EVERY x
#[kani::proof]
#[kani::unwind(5)]
fn u7_taiko_genstate_acc_search_n6() {
    acc_search(6);
}

//@ obl: id=U7.taiko.genstate.acc_search.n12 harness=u7_taiko_genstate_acc_search_n12 props=C12,C13 tier=thorough kind=bounded budget=3000
//@ fns: TaikoPerformance::generate_state (accuracy search arm)
//@ bound: bounded: max_combo <= 12; otherwise as U7.taiko.genstate.acc_search.n6
//@ clause: as U7.taiko.genstate.acc_search.n6
#[kani::proof]
#[kani::unwind(5)]
fn u7_taiko_genstate_acc_search_n12() {
    acc_search(12);
}

// ---- C07: TaikoPerformance::try_from(OsuPerformance) ----------------------------------------------------------------
use crate::osu::OsuPerformance;

fn osu_builder(map_or_attrs: MapOrAttrs<'static, crate::osu::Osu>) -> (OsuPerformance<'static>, Difficulty) {
    let d = any_difficulty();
    let o = OsuPerformance {
        map_or_attrs,
        difficulty: d.clone(),
        acc: None,
        combo: any_opt(),
        large_tick_hits: any_opt(),
        small_tick_hits: any_opt(),
        slider_end_hits: any_opt(),
        n300: any_opt(),
        n100: any_opt(),
        n50: any_opt(),
        misses: any_opt(),
        hitresult_priority: if kani::any() { HitResultPriority::BestCase } else { HitResultPriority::WorstCase },
    };
    (o, d)
}

// NOTE: the same obligation for a builder holding an owned (object-free) osu! map - conversion succeeds, settings are
// carried over - did not finish within 500 s (Cow<Beatmap> moves); only the attributes case is registered.
//@ obl: id=U9.try_from.taiko.attrs harness=u9_try_from_taiko_attrs props=C07 tier=quick kind=proof
//@ fns: <TaikoPerformance as TryFrom<OsuPerformance>>::try_from, OsuPerformance::try_convert_map
//@ bound: osu! builder created from attributes; all u32 values of the score fields, all legacy mod bits
//@ clause: an osu! builder that holds attributes instead of a map cannot be converted: it is handed back unchanged
#[kani::proof]
#[kani::unwind(4)]
fn u9_try_from_taiko_attrs() {
    try_from_taiko(false);
}

fn try_from_taiko(with_map: bool) {
    let (o, d) = if with_map {
        let mut m = crate::Beatmap::default();
        m.is_convert = kani::any();
        osu_builder(MapOrAttrs::Map(std::borrow::Cow::Owned(m)))
    } else {
        osu_builder(MapOrAttrs::Attrs(crate::osu::OsuDifficultyAttributes::default()))
    };
    let should_convert = with_map && match &o.map_or_attrs {
        MapOrAttrs::Map(m) => !m.is_convert,
        MapOrAttrs::Attrs(_) => false,
    };
    let (combo, n300, n100, misses, prio) = (o.combo, o.n300, o.n100, o.misses, o.hitresult_priority);
    match TaikoPerformance::try_from(o) {
        Ok(t) => {
            assert!(should_convert, "C07 only an un-converted osu! map converts");
            assert!(t.combo == combo && t.n300 == n300 && t.n100 == n100 && t.misses == misses && t.hitresult_priority == prio, "C07 score settings carried over to the taiko builder");
            assert!(t.difficulty == d, "C07 Difficulty carried over to the taiko builder");
            match &t.map_or_attrs {
                MapOrAttrs::Map(m) => assert!(m.mode == GameMode::Taiko && m.is_convert, "C07 the taiko builder holds the converted map"),
                MapOrAttrs::Attrs(_) => assert!(false, "C07 the taiko builder holds a map"),
            }
            std::mem::forget(t);
        }
        Err(back) => {
            assert!(!should_convert, "C07 an un-converted osu! map must convert");
            assert!(back.combo == combo && back.n300 == n300 && back.misses == misses && back.difficulty == d, "C07 the osu! builder is handed back unchanged");
            std::mem::forget(back);
        }
    }
}
