//@ unit: genstate_catch
//@ target: src/catch/performance/mod.rs
//@ assume: A-BOUND: attrs n_fruits, n_droplets, n_tiny_droplets <= 2^20 each; provided fruits/droplets/tiny_droplets/tiny_droplet_misses <= 2^30 (the builder adds provided counts before clamping, so values near u32::MAX overflow; outside C12's domain 'beyond the object count'); misses/combo any u32
//@ assume: catch ignores passed_objects when attributes are supplied (the attributes are taken to describe the played prefix); contract is stated over the attributes only
use super::*;
use crate::catch::CatchDifficultyAttributes;

const CAP: u32 = 1 << 20;
const PCAP: u32 = 1 << 30;

fn any_attrs() -> CatchDifficultyAttributes {
    let mut a = CatchDifficultyAttributes::default();
    a.n_fruits = kani::any();
    a.n_droplets = kani::any();
    a.n_tiny_droplets = kani::any();
    kani::assume(a.n_fruits <= CAP && a.n_droplets <= CAP && a.n_tiny_droplets <= CAP);
    a
}

fn any_opt(cap: u32) -> Option<u32> {
    if kani::any() {
        let v: u32 = kani::any();
        kani::assume(v <= cap);
        Some(v)
    } else {
        None
    }
}

fn any_difficulty() -> Difficulty {
    let bits: u32 = kani::any();
    let mut d = Difficulty::new().mods(bits);
    if kani::any() {
        d = d.passed_objects(kani::any());
    }
    d
}

fn any_builder(attrs: &CatchDifficultyAttributes, acc: Option<f64>) -> CatchPerformance<'static> {
    CatchPerformance {
        map_or_attrs: MapOrAttrs::Attrs(attrs.clone()),
        difficulty: any_difficulty(),
        acc,
        combo: any_opt(u32::MAX),
        fruits: any_opt(PCAP),
        droplets: any_opt(PCAP),
        tiny_droplets: any_opt(PCAP),
        tiny_droplet_misses: any_opt(PCAP),
        misses: any_opt(u32::MAX),
    }
}

fn post(pre: &CatchPerformance<'_>, a: &CatchDifficultyAttributes, s: &CatchScoreState, after: &CatchPerformance<'_>) {
    let n = a.n_fruits + a.n_droplets;
    assert!(s.misses <= n, "C12.1 misses <= objects");
    if let Some(m) = pre.misses {
        assert!(s.misses == cmp::min(m, n), "C12.1 provided misses clamped to objects");
    } else {
        assert!(s.misses == 0, "C12.1 misses default 0");
    }
    // (3) fruits + droplets + misses account for every combo object whenever the provided ones do not exceed it
    let provided: u64 = pre.fruits.unwrap_or(0) as u64 + pre.droplets.unwrap_or(0) as u64 + pre.misses.unwrap_or(0) as u64;
    if provided <= n as u64 {
        assert!(s.fruits + s.droplets + s.misses == n, "C12.3 fruits+droplets+misses add up to objects");
    }
    assert!(s.fruits + s.droplets + s.misses <= n, "C12.3 never more results than objects");
    // (2) a provided value that fits is kept where the code does not document recomputation: both given and fitting
    if let (Some(f), Some(d)) = (pre.fruits, pre.droplets) {
        if f as u64 + d as u64 + s.misses as u64 <= n as u64 {
            assert!(s.fruits >= f && s.droplets >= d, "C12.2 provided fruits/droplets kept (only grown by the remainder)");
        }
    }
    // tiny droplets
    if pre.acc.is_none() {
        match (pre.tiny_droplets, pre.tiny_droplet_misses) {
            (Some(t), None) => {
                assert!(s.tiny_droplets == cmp::min(t, a.n_tiny_droplets), "C12.2 provided tiny droplets kept");
                assert!(s.tiny_droplets + s.tiny_droplet_misses == a.n_tiny_droplets, "C12.3 tiny droplets add up");
            }
            (None, Some(t)) => {
                assert!(s.tiny_droplet_misses == cmp::min(t, a.n_tiny_droplets), "C12.2 provided tiny droplet misses kept");
                assert!(s.tiny_droplets + s.tiny_droplet_misses == a.n_tiny_droplets, "C12.3 tiny droplets add up");
            }
            (None, None) => {
                assert!(s.tiny_droplets == a.n_tiny_droplets && s.tiny_droplet_misses == 0, "C12.3 tiny droplets default to all caught");
            }
            (Some(t), Some(m)) => {
                assert!(s.tiny_droplet_misses == m && s.tiny_droplets >= t, "C12.2 provided tiny droplet results kept");
                if t as u64 + m as u64 <= a.n_tiny_droplets as u64 {
                    assert!(s.tiny_droplets + s.tiny_droplet_misses == a.n_tiny_droplets, "C12.3 tiny droplets add up");
                }
            }
        }
    }
    // (4)
    assert!(s.max_combo <= n - s.misses, "C12.4 combo <= max_combo - misses");
    if let Some(c) = pre.combo {
        if c <= n - s.misses {
            assert!(s.max_combo == c, "C12.2 provided combo kept");
        }
    } else {
        assert!(s.max_combo == n - s.misses, "C12.4 default combo is the achievable maximum");
    }
    // (6)
    assert!(after.combo == Some(s.max_combo) && after.misses == Some(s.misses), "C12.6 builder stores generated combo/misses");
    assert!(after.fruits == Some(s.fruits) && after.droplets == Some(s.droplets), "C12.6 builder stores generated fruits/droplets");
    assert!(
        after.tiny_droplets == Some(s.tiny_droplets) && after.tiny_droplet_misses == Some(s.tiny_droplet_misses),
        "C12.6 builder stores generated tiny droplets"
    );
    assert!(matches!(after.map_or_attrs, MapOrAttrs::Attrs(_)), "C12.6 attributes kept");
    assert!(after.acc == pre.acc, "C12.6 frame: acc untouched");
}

fn check(acc: Option<f64>) {
    let a = any_attrs();
    let mut b = any_builder(&a, acc);
    let pre = b.clone();
    kani::cover!(pre.fruits.is_some() && pre.misses.is_some());
    let s1 = match b.generate_state() {
        Ok(s) => s,
        Err(_) => {
            assert!(false, "C12 generate_state on attributes cannot fail");
            return;
        }
    };
    post(&pre, &a, &s1, &b);
    let mid = b.clone();
    match b.generate_state() {
        Ok(s2) => {
            assert!(s1 == s2, "C12.5 second generate_state returns the same state");
            assert!(b == mid, "C12.5 second generate_state leaves the builder unchanged");
        }
        Err(_) => assert!(false, "C12.5 second generate_state cannot fail"),
    }
}

//@ obl: id=U7.catch.genstate.noacc harness=u7_catch_genstate_noacc props=C12,C05 tier=quick kind=proof
//@ fns: CatchPerformance::generate_state, CatchDifficultyAttributes::max_combo
//@ bound: loop-free path (no accuracy); optional fields symbolic within the stated caps
//@ clause: catch generate_state without accuracy: (1) misses' = min(misses, N), N = n_fruits + n_droplets; (2) provided fruits+droplets that fit are kept (grown only by the remainder), provided tiny droplet results kept, provided combo that fits kept; (3) provided <= N ==> fruits'+droplets'+misses' == N, tiny'+tiny_misses' == n_tiny_droplets; (4) combo' <= N - misses'; (5) idempotent; (6) builder holds the generated values; no overflow / underflow panic
#[kani::proof]
fn u7_catch_genstate_noacc() {
    check(None);
}

// ---- accuracy search (tiny droplets): C12 clauses + C13 optimality against a symbolic competitor --------------------

fn acc_search(cap: u32) {
    let mut a = CatchDifficultyAttributes::default();
    a.n_fruits = kani::any();
    a.n_droplets = kani::any();
    a.n_tiny_droplets = kani::any();
    kani::assume(a.n_fruits <= cap && a.n_droplets <= cap && a.n_tiny_droplets <= cap);
    // an empty map has no accuracy to approximate (0/0)
    kani::assume(a.n_fruits + a.n_droplets + a.n_tiny_droplets > 0);
    let acc: f64 = kani::any();
    kani::assume(acc >= 0.0 && acc <= 1.0);
    let mut b = CatchPerformance {
        map_or_attrs: MapOrAttrs::Attrs(a.clone()),
        difficulty: any_difficulty(),
        acc: Some(acc),
        combo: any_opt(u32::MAX),
        fruits: any_opt(PCAP),
        droplets: any_opt(PCAP),
        tiny_droplets: None,
        tiny_droplet_misses: None,
        misses: any_opt(u32::MAX),
    };
    let pre = b.clone();
    let s = match b.generate_state() {
        Ok(s) => s,
        Err(_) => {
            assert!(false, "C12 generate_state on attributes cannot fail");
            return;
        }
    };
    post(&pre, &a, &s, &b);
    assert!(s.tiny_droplets + s.tiny_droplet_misses == a.n_tiny_droplets, "C12.3 tiny droplets add up");
    let x: u32 = kani::any();
    kani::assume(x <= a.n_tiny_droplets);
    let chosen = (acc - accuracy(s.fruits, s.droplets, s.tiny_droplets, s.tiny_droplet_misses, s.misses)).abs();
    let other = (acc - accuracy(s.fruits, s.droplets, x, a.n_tiny_droplets - x, s.misses)).abs();
    assert!(chosen <= other, "C13 generated tiny droplet count is at least as close to the requested accuracy as any other");
}

//@ obl: id=U7.catch.genstate.acc_search.n4 harness=u7_catch_genstate_acc_search_n4 props=C12,C13 tier=quick kind=bounded budget=900
//@ fns: CatchPerformance::generate_state (find_best_tiny_droplets), accuracy (catch::performance)
//@ bound: bounded: fruits, droplets, tiny droplets <= 4 each (not all zero); accuracy any value in [0,1]; fruits/droplets/misses/combo optional and symbolic; tiny droplet results not given; search loop closed by unwind 5 (certified); competitor symbolic
//@ clause: catch generate_state with accuracy: C12 clauses; tiny'+tiny_misses' == n_tiny_droplets; C13: no other tiny droplet count gives an accuracy closer to the requested one
#[kani::proof]
#[kani::unwind(5)]
fn u7_catch_genstate_acc_search_n4() {
    acc_search(4);
}

//@ obl: id=U7.catch.genstate.acc_search.n10 harness=u7_catch_genstate_acc_search_n10 props=C12,C13 tier=thorough kind=bounded budget=3000
//@ fns: CatchPerformance::generate_state (find_best_tiny_droplets)
//@ bound: bounded: fruits, droplets, tiny droplets <= 10 each; otherwise as U7.catch.genstate.acc_search.n4
//@ clause: as U7.catch.genstate.acc_search.n4
#[kani::proof]
#[kani::unwind(5)]
fn u7_catch_genstate_acc_search_n10() {
    acc_search(10);
}
