//@ unit: gradual_osu
//@ target: src/osu/difficulty/gradual.rs
//@ assume: T4: skill `process` bodies and `DifficultyValues::eval` are replaced by no-op stubs during verification (float pipelines); their frame - they do not write idx, the object arrays or the count fields - is assumed. Native replays run the real skills.
//@ assume: inductive-step argument: obligations are proved from ANY state satisfying the representation invariant (osu_objects.len()==N, diff_objects.len()==max(N,1)-1, idx<=diff_objects.len()+1, N==0 ==> idx==0, attrs count max(idx,1) objects); `new` establishing the invariant is covered by U12.osu.new_shape (structural) only
//@ assume: bounded: N (number of hit objects) is fixed per harness; objects are circles with symbolic times; idx and the nth argument are fully symbolic
//@ attr: file=src/osu/performance/gradual.rs anchor=`pub fn next(&mut self, state: OsuScoreState)` insert=`#[cfg(kani)] pub(crate) fn __verif_from_parts(lazer: bool, difficulty: OsuGradualDifficulty) -> Self { Self { lazer, difficulty } }`
use super::*;
use crate::any::difficulty::skills::StrainSkill;
use crate::model::beatmap::BeatmapAttributesBuilder;
use crate::model::mods::GameMods;
use crate::osu::difficulty::scaling_factor::ScalingFactor;
use crate::osu::difficulty::skills::{aim::Aim, flashlight::Flashlight, speed::Speed};
use rosu_map::util::Pos;

static mut LOG: [usize; 8] = [usize::MAX; 8];
static mut LOG_N: usize = 0;

fn log(idx: usize) {
    unsafe {
        if LOG_N < 8 {
            LOG[LOG_N] = idx;
        }
        LOG_N += 1;
    }
}

fn stub_eval(_attrs: &mut OsuDifficultyAttributes, _mods: &GameMods, _skills: &OsuSkills) {}
// `OsuSkills::process` (used by nth) and `Speed::process` (called once per object by next) each stand for "this difficulty
// object was processed once"
fn stub_process(_s: &mut OsuSkills, curr: &OsuDifficultyObject<'_>, _objects: &[OsuDifficultyObject<'_>]) {
    log(curr.idx);
}
// (OsuSkills holds two Aim skills, so the per-object marker for `next` is the single Speed skill)
fn stub_aim_process<'a>(_s: &mut Aim, _curr: &OsuDifficultyObject<'a>, _objects: &[OsuDifficultyObject<'a>]) {}
fn stub_speed_process<'a>(_s: &mut Speed, curr: &OsuDifficultyObject<'a>, _objects: &[OsuDifficultyObject<'a>]) {
    log(curr.idx);
}
fn stub_fl_process<'a>(_s: &mut Flashlight, _curr: &OsuDifficultyObject<'a>, _objects: &[OsuDifficultyObject<'a>]) {}

fn obj(i: usize) -> OsuObject {
    OsuObject {
        pos: Pos::new(10.0 * i as f32, 0.0),
        start_time: 500.0 * i as f64,
        stack_height: 0,
        stack_offset: Pos::default(),
        kind: OsuObjectKind::Circle,
    }
}

/// Any state satisfying the representation invariant established by `new` (see unit assumptions).
fn any_state(n: usize) -> OsuGradualDifficulty {
    let objs: Vec<OsuObject> = (0..n).map(obj).collect();
    let objs: &'static mut [OsuObject] = Box::leak(objs.into_boxed_slice());
    let sf = ScalingFactor::new(5.0);
    let mut diffs = Vec::new();
    for i in 1..n {
        diffs.push(OsuDifficultyObject::new(&objs[i], &objs[i - 1], None, 1.0, i - 1, &sf));
    }
    let mods = GameMods::default();
    let map_attrs = BeatmapAttributesBuilder::new().build();
    let skills = OsuSkills::new(&mods, &sf, &map_attrs, 600.0);
    let idx: usize = kani::any();
    kani::assume(idx <= diffs.len() + 1);
    if n == 0 {
        kani::assume(idx == 0);
    }
    let mut attrs = OsuDifficultyAttributes::default();
    if n > 0 {
        // `new` counts the first object up front; every consumed object after it adds one circle
        let counted = if idx == 0 { 1 } else { idx } as u32;
        attrs.n_circles = counted;
        attrs.max_combo = counted;
    }
    let owned: Vec<OsuObject> = (0..n).map(obj).collect();
    OsuGradualDifficulty {
        idx,
        difficulty: Difficulty::new(),
        attrs,
        skills,
        diff_objects: diffs.into_boxed_slice(),
        osu_objects: OsuObjects::new(owned.into_boxed_slice()),
        _not_clonable: NotClonable,
    }
}

fn invariant(g: &OsuGradualDifficulty, n: usize) -> bool {
    g.diff_objects.len() + 1 == if n == 0 { 1 } else { n } && g.idx <= g.diff_objects.len() + 1 && (n > 0 || g.idx == 0)
}

/// C15 (a)-(d) + the count part of C02/C14 for one operation from an arbitrary invariant state.
fn step_protocol(n: usize) {
    let mut g = any_state(n);
    let idx0 = g.idx;
    let remaining = n - idx0;
    // (a)
    assert!(g.len() == remaining, "C15.a len() == number of values still to come");
    assert!(g.size_hint() == (remaining, Some(remaining)), "C15.a size_hint() == (remaining, Some(remaining))");
    let consumed;
    let ret;
    if kani::any() {
        // (b)
        ret = g.next();
        assert!(ret.is_some() == (remaining > 0), "C15.b next() is Some iff values remain");
        consumed = if remaining > 0 { 1 } else { 0 };
    } else {
        // (c) Iterator::nth
        let k: usize = kani::any();
        ret = g.nth(k);
        assert!(ret.is_some() == (k < remaining), "C15.c nth(k) is Some iff more than k values remain");
        consumed = if k < remaining { k + 1 } else { remaining };
    }
    assert!(g.idx == idx0 + consumed, "C15.bc exactly min(k+1, remaining) values are consumed");
    // (d)
    assert!(invariant(&g, n), "C15.d representation invariant preserved (exhausted stays exhausted, no overflow)");
    assert!(g.len() == remaining - consumed, "C15.d len() decreases by the number of consumed values");
    // C02 / C14: the i-th value counts exactly the first i objects
    if let Some(a) = ret {
        assert!(a.n_objects() as usize == g.idx && a.max_combo as usize == g.idx, "C02 the i-th gradual value counts exactly i objects");
    }
    mem::forget(g);
}

/// C02 (a): which difficulty objects get processed by one operation, in which order.
fn step_processed(n: usize) {
    let mut g = any_state(n);
    let idx0 = g.idx;
    let remaining = n - idx0;
    let consumed = if kani::any() {
        let _ = g.next();
        if remaining > 0 { 1 } else { 0 }
    } else {
        let k: usize = kani::any();
        let _ = g.nth(k);
        if k < remaining { k + 1 } else { remaining }
    };
    // consuming map objects idx0 .. idx0+consumed-1 processes difficulty objects j (belonging to map object j+1)
    // with idx0 <= j+1 <= idx0+consumed-1, each once, in increasing order
    let first = if idx0 == 0 { 0 } else { idx0 - 1 };
    let end = if idx0 + consumed == 0 { 0 } else { idx0 + consumed - 1 };
    let expect = if end > first { end - first } else { 0 };
    unsafe {
        assert!(LOG_N == expect, "C02 one operation processes exactly the difficulty objects of the consumed hit objects");
        let mut i = 0;
        while i < expect && i < 8 {
            assert!(LOG[i] == first + i, "C02 difficulty objects are processed once each, in order");
            i += 1;
        }
    }
    // dropping the calculator is not under contract here (drop glue of the object arrays is expensive for CBMC)
    mem::forget(g);
}

macro_rules! h {
    ($name:ident, $f:ident, $n:expr) => {
        #[kani::proof]
        #[kani::unwind(8)]
        #[kani::stub(crate::osu::difficulty::DifficultyValues::eval, stub_eval)]
        #[kani::stub(crate::osu::difficulty::skills::OsuSkills::process, stub_process)]
        #[kani::stub(<Aim as StrainSkill>::process, stub_aim_process)]
        #[kani::stub(<Speed as StrainSkill>::process, stub_speed_process)]
        #[kani::stub(<Flashlight as StrainSkill>::process, stub_fl_process)]
        fn $name() {
            $f($n);
        }
    };
}

//@ obl: id=U12.osu.protocol.n0 harness=u12_osu_protocol_n0 props=C15,C02,C03 tier=quick kind=bounded
//@ fns: OsuGradualDifficulty::next, OsuGradualDifficulty::nth, OsuGradualDifficulty::len, OsuGradualDifficulty::size_hint, OsuGradualDifficulty::increment_combo
//@ bound: bounded: map with N = 0 objects; idx and nth argument k range over all usize
//@ clause: C15 (a) len()==remaining, size_hint()==(remaining,Some(remaining)); (b) next() Some iff remaining>0, then idx'=idx+1, else unchanged; (c) nth(k) Some iff k<remaining, consumes min(k+1,remaining); (d) invariant preserved, no arithmetic overflow / index panic; the i-th value counts exactly i objects
h!(u12_osu_protocol_n0, step_protocol, 0);
//@ obl: id=U12.osu.protocol.n1 harness=u12_osu_protocol_n1 props=C15,C02,C03 tier=quick kind=bounded
//@ fns: OsuGradualDifficulty::next, OsuGradualDifficulty::nth, OsuGradualDifficulty::len, OsuGradualDifficulty::size_hint
//@ bound: bounded: N = 1 object; idx, k all usize
//@ clause: C15 (a)-(d) and count clause as U12.osu.protocol.n0
h!(u12_osu_protocol_n1, step_protocol, 1);
//@ obl: id=U12.osu.protocol.n2 harness=u12_osu_protocol_n2 props=C15,C02,C03 tier=quick kind=bounded
//@ fns: OsuGradualDifficulty::next, OsuGradualDifficulty::nth, OsuGradualDifficulty::len, OsuGradualDifficulty::size_hint
//@ bound: bounded: N = 2 objects; idx, k all usize
//@ clause: C15 (a)-(d) and count clause as U12.osu.protocol.n0
h!(u12_osu_protocol_n2, step_protocol, 2);
//@ obl: id=U12.osu.protocol.n3 harness=u12_osu_protocol_n3 props=C15,C02,C03 tier=thorough kind=bounded budget=3000
//@ fns: OsuGradualDifficulty::next, OsuGradualDifficulty::nth, OsuGradualDifficulty::len, OsuGradualDifficulty::size_hint
//@ bound: bounded: N = 3 objects; idx, k all usize
//@ clause: C15 (a)-(d) and count clause as U12.osu.protocol.n0
h!(u12_osu_protocol_n3, step_protocol, 3);
//@ obl: id=U12.osu.protocol.n4 harness=u12_osu_protocol_n4 props=C15,C02,C03 tier=thorough kind=bounded budget=3000
//@ fns: OsuGradualDifficulty::next, OsuGradualDifficulty::nth, OsuGradualDifficulty::len, OsuGradualDifficulty::size_hint
//@ bound: bounded: N = 4 objects; idx, k all usize
//@ clause: C15 (a)-(d) and count clause as U12.osu.protocol.n0
h!(u12_osu_protocol_n4, step_protocol, 4);

//@ obl: id=U12.osu.processed.n2 harness=u12_osu_processed_n2 stubs=yes props=C02 tier=quick kind=bounded
//@ fns: OsuGradualDifficulty::next, OsuGradualDifficulty::nth
//@ bound: bounded: N = 2 objects; idx, k all usize
//@ clause: C02: one next()/nth(k) processes exactly the difficulty objects belonging to the consumed hit objects (object j+1 -> difficulty object j), each once and in increasing order; hence after i values exactly difficulty objects 0..i-2 have been processed, the same prefix the one-shot calculation with passed_objects(i) processes
h!(u12_osu_processed_n2, step_processed, 2);
//@ obl: id=U12.osu.processed.n3 harness=u12_osu_processed_n3 stubs=yes props=C02 tier=thorough kind=bounded budget=3000
//@ fns: OsuGradualDifficulty::next, OsuGradualDifficulty::nth
//@ bound: bounded: N = 3 objects; idx, k all usize
//@ clause: as U12.osu.processed.n2
h!(u12_osu_processed_n3, step_processed, 3);

// ---- C03: gradual performance = one-shot performance of the partial play ------------------------------------------
use crate::osu::performance::gradual::OsuGradualPerformance;
use crate::osu::performance::OsuPerformance;
use crate::osu::{OsuPerformanceAttributes, OsuScoreState};

// Everything the recording stub needs is kept as plain data (no enums with heap variants travel through statics, which
// would make CBMC explore BTreeMap / Beatmap clones).
static mut EXP_BITS: u32 = 0;
static mut EXP_PASSED: Option<u32> = None;
static mut EXP_RATE: bool = false;
static mut EXP_LAZER: Option<bool> = None;
static mut EXP_STATE: [u32; 8] = [0; 8];
static mut EXP_I: u32 = 0;
static mut REC_CALLS: u32 = 0;
static mut REC_MATCH: bool = false;

/// the settings the caller created the gradual calculator with (possibly carrying their own passed_objects)
fn user_difficulty() -> Difficulty {
    unsafe {
        let mut d = Difficulty::new().mods(EXP_BITS);
        if let Some(p) = EXP_PASSED {
            d = d.passed_objects(p);
        }
        if EXP_RATE {
            // a concrete non-default rate: forwarding is by cloning the whole Difficulty; a symbolic rate would drag
            // the modes' float combo arithmetic into the formula
            d = d.clock_rate(1.5);
        }
        if let Some(l) = EXP_LAZER {
            d = d.lazer(l);
        }
        d
    }
}

fn user_state() -> OsuScoreState {
    unsafe { OsuScoreState { max_combo: EXP_STATE[0], large_tick_hits: EXP_STATE[1], small_tick_hits: EXP_STATE[2], slider_end_hits: EXP_STATE[3], n300: EXP_STATE[4], n100: EXP_STATE[5], n50: EXP_STATE[6], misses: EXP_STATE[7] } }
}

/// Recording replacement for `OsuPerformance::calculate` (the float pp pipeline): checks the builder it is called on
/// against what a one-shot user builds from the same attributes:
/// Performance(attrs).difficulty(D).passed_objects(i).state(S) - i.e. applying exactly those settings changes nothing.
fn rec_calculate<'map>(this: OsuPerformance<'map>) -> Result<OsuPerformanceAttributes, crate::model::mode::ConvertError>
where
    'map: 'map, // early-bound, so that the generic parameter count matches the stubbed method
{
    unsafe {
        REC_CALLS += 1;
        let expect = this.clone().difficulty(user_difficulty()).passed_objects(EXP_I).state(user_state());
        REC_MATCH = this == expect;
        std::mem::forget(expect);
    }
    std::mem::forget(this);
    Ok(OsuPerformanceAttributes::default())
}

fn perf_step(n: usize) {
    let mut g = any_state(n);
    unsafe {
        EXP_BITS = kani::any();
        EXP_PASSED = if kani::any() { Some(kani::any()) } else { None };
        EXP_RATE = kani::any();
        EXP_LAZER = if kani::any() { Some(kani::any()) } else { None };
        EXP_STATE = kani::any();
    }
    g.difficulty = user_difficulty();
    let lazer = g.difficulty.get_lazer();
    let _ = lazer;
    let idx0 = g.idx;
    let remaining = n - idx0;
    let mut p = OsuGradualPerformance::__verif_from_parts(lazer, g);
    let which: u8 = kani::any();
    let k: usize = kani::any();
    let consumed = match which % 3 {
        0 => if remaining > 0 { 1 } else { 0 },
        1 => remaining,
        _ => if k < remaining { k + 1 } else { remaining },
    };
    unsafe {
        EXP_I = (idx0 + consumed) as u32;
    }
    let ret = match which % 3 {
        0 => p.next(user_state()),
        1 => p.last(user_state()),
        _ => p.nth(user_state(), k),
    };
    assert!(p.len() == remaining - consumed, "C15.e gradual performance processes min(n+1, remaining) objects (last: all remaining)");
    assert!(ret.is_some() == (remaining > 0), "C15.e gradual performance returns None exactly when nothing remains");
    unsafe {
        if remaining == 0 {
            assert!(REC_CALLS == 0, "C03 nothing is calculated when nothing remains");
        } else {
            assert!(REC_CALLS == 1, "C03 exactly one performance calculation per step");
            assert!(REC_MATCH, "C03 gradual performance evaluates exactly the one-shot builder: same settings, passed_objects(i), same state");
        }
    }
    std::mem::forget(p);
}

macro_rules! hp {
    ($name:ident, $n:expr) => {
        #[kani::proof]
        #[kani::unwind(8)]
        #[kani::stub(crate::osu::difficulty::DifficultyValues::eval, stub_eval)]
        #[kani::stub(crate::osu::difficulty::skills::OsuSkills::process, stub_process)]
        #[kani::stub(<Aim as StrainSkill>::process, stub_aim_process)]
        #[kani::stub(<Speed as StrainSkill>::process, stub_speed_process)]
        #[kani::stub(<Flashlight as StrainSkill>::process, stub_fl_process)]
        #[kani::stub(crate::osu::performance::OsuPerformance::calculate, rec_calculate)]
        fn $name() {
            perf_step($n);
        }
    };
}

//@ obl: id=U12.osu.perf.n0 harness=u12_osu_perf_n0 stubs=yes props=C03,C15 tier=quick kind=bounded
//@ fns: OsuGradualPerformance::next, OsuGradualPerformance::nth, OsuGradualPerformance::last, OsuGradualPerformance::len
//@ bound: bounded: 0 objects; calculator position, the nth argument, the score state (all u32 fields) and the caller's Difficulty (mods bits, passed_objects, lazer symbolic; clock rate unset or 1.5) symbolic; OsuPerformance::calculate replaced by a recording stub
//@ clause: C15 (e): nth(state, n) processes min(n+1, remaining) objects, last processes all remaining, next one; None exactly when nothing remains. C03: the performance builder that gets calculated equals Performance(attributes after i objects).difficulty(D).passed_objects(i).state(S) field for field, i = objects consumed so far
hp!(u12_osu_perf_n0, 0);

//@ obl: id=U12.osu.perf.n2 harness=u12_osu_perf_n2 stubs=yes props=C03,C15 tier=quick kind=bounded
//@ fns: OsuGradualPerformance::next, OsuGradualPerformance::nth, OsuGradualPerformance::last, OsuGradualPerformance::len
//@ bound: bounded: 2 objects; calculator position, the nth argument, the score state (all u32 fields) and the caller's Difficulty (mods bits, passed_objects, lazer symbolic; clock rate unset or 1.5) symbolic; OsuPerformance::calculate replaced by a recording stub
//@ clause: C15 (e): nth(state, n) processes min(n+1, remaining) objects, last processes all remaining, next one; None exactly when nothing remains. C03: the performance builder that gets calculated equals Performance(attributes after i objects).difficulty(D).passed_objects(i).state(S) field for field, i = objects consumed so far
hp!(u12_osu_perf_n2, 2);

//@ obl: id=U12.osu.perf.n3 harness=u12_osu_perf_n3 stubs=yes props=C03,C15 tier=thorough kind=bounded budget=3000
//@ fns: OsuGradualPerformance::next, OsuGradualPerformance::nth, OsuGradualPerformance::last, OsuGradualPerformance::len
//@ bound: bounded: 3 objects; calculator position, the nth argument, the score state (all u32 fields) and the caller's Difficulty (mods bits, passed_objects, lazer symbolic; clock rate unset or 1.5) symbolic; OsuPerformance::calculate replaced by a recording stub
//@ clause: C15 (e): nth(state, n) processes min(n+1, remaining) objects, last processes all remaining, next one; None exactly when nothing remains. C03: the performance builder that gets calculated equals Performance(attributes after i objects).difficulty(D).passed_objects(i).state(S) field for field, i = objects consumed so far
hp!(u12_osu_perf_n3, 3);
