//@ unit: gradual_osu
//@ target: src/osu/difficulty/gradual.rs
//@ assume: T4: skill `process` bodies and `DifficultyValues::eval` are replaced by no-op stubs during verification (float pipelines); their frame - they do not write idx, the object arrays or the count fields - is assumed. Native replays run the real skills.
//@ assume: inductive-step argument: obligations are proved from ANY state satisfying the representation invariant (osu_objects.len()==N, diff_objects.len()==max(N,1)-1, idx<=diff_objects.len()+1, N==0 ==> idx==0, attrs count max(idx,1) objects); `new` establishing the invariant is covered by U12.osu.new_shape (structural) only
//@ assume: bounded: N (number of hit objects) is fixed per harness; objects are circles with symbolic times; idx and the nth argument are fully symbolic
use super::*;
use crate::any::difficulty::skills::StrainSkill;
use crate::model::beatmap::BeatmapAttributesBuilder;
use crate::model::mods::GameMods;
use crate::osu::difficulty::scaling_factor::ScalingFactor;
use crate::osu::difficulty::skills::{aim::Aim, flashlight::Flashlight, speed::Speed};
use rosu_map::util::Pos;

static mut LOG: [usize; 8] = [usize::MAX; 8];
static mut LOG_N: usize = 0;

fn log(idx: usize) {
    unsafe {
        if LOG_N < 8 {
            LOG[LOG_N] = idx;
        }
        LOG_N += 1;
    }
}

fn stub_eval(_attrs: &mut OsuDifficultyAttributes, _mods: &GameMods, _skills: &OsuSkills) {}
// `OsuSkills::process` (used by nth) and `Speed::process` (called once per object by next) each stand for "this difficulty
// object was processed once"
fn stub_process(_s: &mut OsuSkills, curr: &OsuDifficultyObject<'_>, _objects: &[OsuDifficultyObject<'_>]) {
    log(curr.idx);
}
// (OsuSkills holds two Aim skills, so the per-object marker for `next` is the single Speed skill)
fn stub_aim_process<'a>(_s: &mut Aim, _curr: &OsuDifficultyObject<'a>, _objects: &[OsuDifficultyObject<'a>]) {}
fn stub_speed_process<'a>(_s: &mut Speed, curr: &OsuDifficultyObject<'a>, _objects: &[OsuDifficultyObject<'a>]) {
    log(curr.idx);
}
fn stub_fl_process<'a>(_s: &mut Flashlight, _curr: &OsuDifficultyObject<'a>, _objects: &[OsuDifficultyObject<'a>]) {}

fn obj(i: usize) -> OsuObject {
    OsuObject {
        pos: Pos::new(10.0 * i as f32, 0.0),
        start_time: 500.0 * i as f64,
        stack_height: 0,
        stack_offset: Pos::default(),
        kind: OsuObjectKind::Circle,
    }
}

/// Any state satisfying the representation invariant established by `new` (see unit assumptions).
fn any_state(n: usize) -> OsuGradualDifficulty {
    let objs: Vec<OsuObject> = (0..n).map(obj).collect();
    let objs: &'static mut [OsuObject] = Box::leak(objs.into_boxed_slice());
    let sf = ScalingFactor::new(5.0);
    let mut diffs = Vec::new();
    for i in 1..n {
        diffs.push(OsuDifficultyObject::new(&objs[i], &objs[i - 1], None, 1.0, i - 1, &sf));
    }
    let mods = GameMods::default();
    let map_attrs = BeatmapAttributesBuilder::new().build();
    let skills = OsuSkills::new(&mods, &sf, &map_attrs, 600.0);
    let idx: usize = kani::any();
    kani::assume(idx <= diffs.len() + 1);
    if n == 0 {
        kani::assume(idx == 0);
    }
    let mut attrs = OsuDifficultyAttributes::default();
    if n > 0 {
        // `new` counts the first object up front; every consumed object after it adds one circle
        let counted = if idx == 0 { 1 } else { idx } as u32;
        attrs.n_circles = counted;
        attrs.max_combo = counted;
    }
    let owned: Vec<OsuObject> = (0..n).map(obj).collect();
    OsuGradualDifficulty {
        idx,
        difficulty: Difficulty::new(),
        attrs,
        skills,
        diff_objects: diffs.into_boxed_slice(),
        osu_objects: OsuObjects::new(owned.into_boxed_slice()),
        _not_clonable: NotClonable,
    }
}

fn invariant(g: &OsuGradualDifficulty, n: usize) -> bool {
    g.diff_objects.len() + 1 == if n == 0 { 1 } else { n } && g.idx <= g.diff_objects.len() + 1 && (n > 0 || g.idx == 0)
}

/// C15 (a)-(d) + the count part of C02/C14 for one operation from an arbitrary invariant state.
fn step_protocol(n: usize) {
    let mut g = any_state(n);
    let idx0 = g.idx;
    let remaining = n - idx0;
    // (a)
    assert!(g.len() == remaining, "C15.a len() == number of values still to come");
    assert!(g.size_hint() == (remaining, Some(remaining)), "C15.a size_hint() == (remaining, Some(remaining))");
    let consumed;
    let ret;
    if kani::any() {
        // (b)
        ret = g.next();
        assert!(ret.is_some() == (remaining > 0), "C15.b next() is Some iff values remain");
        consumed = if remaining > 0 { 1 } else { 0 };
    } else {
        // (c) Iterator::nth
        let k: usize = kani::any();
        ret = g.nth(k);
        assert!(ret.is_some() == (k < remaining), "C15.c nth(k) is Some iff more than k values remain");
        consumed = if k < remaining { k + 1 } else { remaining };
    }
    assert!(g.idx == idx0 + consumed, "C15.bc exactly min(k+1, remaining) values are consumed");
    // (d)
    assert!(invariant(&g, n), "C15.d representation invariant preserved (exhausted stays exhausted, no overflow)");
    assert!(g.len() == remaining - consumed, "C15.d len() decreases by the number of consumed values");
    // C02 / C14: the i-th value counts exactly the first i objects
    if let Some(a) = ret {
        assert!(a.n_objects() as usize == g.idx && a.max_combo as usize == g.idx, "C02 the i-th gradual value counts exactly i objects");
    }
    mem::forget(g);
}

/// C02 (a): which difficulty objects get processed by one operation, in which order.
fn step_processed(n: usize) {
    let mut g = any_state(n);
    let idx0 = g.idx;
    let remaining = n - idx0;
    let consumed = if kani::any() {
        let _ = g.next();
        if remaining > 0 { 1 } else { 0 }
    } else {
        let k: usize = kani::any();
        let _ = g.nth(k);
        if k < remaining { k + 1 } else { remaining }
    };
    // consuming map objects idx0 .. idx0+consumed-1 processes difficulty objects j (belonging to map object j+1)
    // with idx0 <= j+1 <= idx0+consumed-1, each once, in increasing order
    let first = if idx0 == 0 { 0 } else { idx0 - 1 };
    let end = if idx0 + consumed == 0 { 0 } else { idx0 + consumed - 1 };
    let expect = if end > first { end - first } else { 0 };
    unsafe {
        assert!(LOG_N == expect, "C02 one operation processes exactly the difficulty objects of the consumed hit objects");
        let mut i = 0;
        while i < expect && i < 8 {
            assert!(LOG[i] == first + i, "C02 difficulty objects are processed once each, in order");
            i += 1;
        }
    }
    // dropping the calculator is not under contract here (drop glue of the object arrays is expensive for CBMC)
    mem::forget(g);
}

macro_rules! h {
    ($name:ident, $f:ident, $n:expr) => {
        #[kani::proof]
        #[kani::unwind(8)]
        #[kani::stub(crate::osu::difficulty::DifficultyValues::eval, stub_eval)]
        #[kani::stub(crate::osu::difficulty::skills::OsuSkills::process, stub_process)]
        #[kani::stub(<Aim as StrainSkill>::process, stub_aim_process)]
        #[kani::stub(<Speed as StrainSkill>::process, stub_speed_process)]
        #[kani::stub(<Flashlight as StrainSkill>::process, stub_fl_process)]
        fn $name() {
            $f($n);
        }
    };
}

//@ obl: id=U12.osu.protocol.n0 harness=u12_osu_protocol_n0 props=C15,C02,C05 tier=quick kind=bounded
//@ fns: OsuGradualDifficulty::next, OsuGradualDifficulty::nth, OsuGradualDifficulty::len, OsuGradualDifficulty::size_hint, OsuGradualDifficulty::increment_combo
//@ bound: bounded: map with N = 0 objects; idx and nth argument k range over all usize
//@ clause: C15 (a) len()==remaining, size_hint()==(remaining,Some(remaining)); (b) next() Some iff remaining>0, then idx'=idx+1, else unchanged; (c) nth(k) Some iff k<remaining, consumes min(k+1,remaining); (d) invariant preserved, no arithmetic overflow / index panic; the i-th value counts exactly i objects
h!(u12_osu_protocol_n0, step_protocol, 0);
//@ obl: id=U12.osu.protocol.n1 harness=u12_osu_protocol_n1 props=C15,C02,C05 tier=quick kind=bounded
//@ fns: OsuGradualDifficulty::next, OsuGradualDifficulty::nth, OsuGradualDifficulty::len, OsuGradualDifficulty::size_hint
//@ bound: bounded: N = 1 object; idx, k all usize
//@ clause: C15 (a)-(d) and count clause as U12.osu.protocol.n0
h!(u12_osu_protocol_n1, step_protocol, 1);
//@ obl: id=U12.osu.protocol.n2 harness=u12_osu_protocol_n2 props=C15,C02,C05 tier=quick kind=bounded
//@ fns: OsuGradualDifficulty::next, OsuGradualDifficulty::nth, OsuGradualDifficulty::len, OsuGradualDifficulty::size_hint
//@ bound: bounded: N = 2 objects; idx, k all usize
//@ clause: C15 (a)-(d) and count clause as U12.osu.protocol.n0
h!(u12_osu_protocol_n2, step_protocol, 2);
//@ obl: id=U12.osu.protocol.n3 harness=u12_osu_protocol_n3 props=C15,C02,C05 tier=thorough kind=bounded budget=3000
//@ fns: OsuGradualDifficulty::next, OsuGradualDifficulty::nth, OsuGradualDifficulty::len, OsuGradualDifficulty::size_hint
//@ bound: bounded: N = 3 objects; idx, k all usize
//@ clause: C15 (a)-(d) and count clause as U12.osu.protocol.n0
h!(u12_osu_protocol_n3, step_protocol, 3);
//@ obl: id=U12.osu.protocol.n4 harness=u12_osu_protocol_n4 props=C15,C02,C05 tier=thorough kind=bounded budget=3000
//@ fns: OsuGradualDifficulty::next, OsuGradualDifficulty::nth, OsuGradualDifficulty::len, OsuGradualDifficulty::size_hint
//@ bound: bounded: N = 4 objects; idx, k all usize
//@ clause: C15 (a)-(d) and count clause as U12.osu.protocol.n0
h!(u12_osu_protocol_n4, step_protocol, 4);

//@ obl: id=U12.osu.processed.n2 harness=u12_osu_processed_n2 stubs=yes props=C02 tier=quick kind=bounded
//@ fns: OsuGradualDifficulty::next, OsuGradualDifficulty::nth
//@ bound: bounded: N = 2 objects; idx, k all usize
//@ clause: C02: one next()/nth(k) processes exactly the difficulty objects belonging to the consumed hit objects (object j+1 -> difficulty object j), each once and in increasing order; hence after i values exactly difficulty objects 0..i-2 have been processed, the same prefix the one-shot calculation with passed_objects(i) processes
h!(u12_osu_processed_n2, step_processed, 2);
//@ obl: id=U12.osu.processed.n3 harness=u12_osu_processed_n3 stubs=yes props=C02 tier=thorough kind=bounded budget=3000
//@ fns: OsuGradualDifficulty::next, OsuGradualDifficulty::nth
//@ bound: bounded: N = 3 objects; idx, k all usize
//@ clause: as U12.osu.processed.n2
h!(u12_osu_processed_n3, step_processed, 3);
