//@ unit: misc_hint
//@ target: src/util/hint.rs
use super::*;

//@ obl: id=U14.hint.identity harness=u14_hint_identity props=C05,C10 tier=quick kind=proof
//@ fns: likely, unlikely
//@ bound: loop-free; both boolean values
//@ clause: likely(b) == b and unlikely(b) == b (extraction rewrite R2 replaces them by their argument)
#[kani::proof]
fn u14_hint_identity() {
    let b: bool = kani::any();
    assert!(likely(b) == b && unlikely(b) == b, "C05 branch hints are the identity");
}
