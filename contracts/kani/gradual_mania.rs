//@ unit: gradual_mania
//@ target: src/mania/difficulty/gradual.rs
//@ assume: T4: `Strain::process` and `Strain::cloned_difficulty_value` are replaced by stubs during verification (float pipeline); their frame - they do not write idx, the object arrays or the note counters - is assumed. Native replays run the real skill.
//@ assume: inductive-step argument: obligations are proved from ANY state satisfying the representation invariant (objects_is_circle.len()==N, diff_objects.len()==max(N,1)-1, idx<=diff_objects.len()+1, N==0 ==> idx==0, note counters cover the first max(idx,1) objects); that `new` establishes it is not proved (needs the converters). The invariant describes calculators created without a passed_objects limit.
//@ assume: bounded: N (number of hit objects) is fixed per harness; circle/hold flags symbolic, hold notes have zero length (the duration term of the combo is obligation U14.mania.combo_term); idx and the nth argument are fully symbolic
//@ attr: file=src/mania/performance/gradual.rs anchor=`pub fn next(&mut self, state: ManiaScoreState)` insert=`#[cfg(kani)] pub(crate) fn __verif_from_parts(difficulty: ManiaGradualDifficulty) -> Self { Self { difficulty } }`
use super::*;

static mut LOG: [usize; 8] = [usize::MAX; 8];
static mut LOG_N: usize = 0;

fn stub_process<'a>(_s: &mut Strain, curr: &ManiaDifficultyObject, _objects: &[ManiaDifficultyObject]) {
    unsafe {
        if LOG_N < 8 {
            LOG[LOG_N] = curr.idx;
        }
        LOG_N += 1;
    }
}
fn stub_value(_s: &Strain) -> f64 {
    0.0
}

/// returns the state and, for every k, (combo, hold notes) of the first k objects
fn any_state(n: usize) -> (ManiaGradualDifficulty, [(u32, u32); 6]) {
    any_state_limited(n, 0)
}

/// `extra` > 0: a calculator created with a passed_objects limit - the map has n + extra objects, but only the first
/// n are turned into difficulty objects and will be yielded
fn any_state_limited(n: usize, extra: usize) -> (ManiaGradualDifficulty, [(u32, u32); 6]) {
    let mut is_circle = Vec::new();
    let mut prefix = [(0u32, 0u32); 6];
    let mut i = 0;
    while i < n {
        let c: bool = kani::any();
        is_circle.push(c);
        let (combo, holds) = prefix[i];
        prefix[i + 1] = (combo + 1, holds + if c { 0 } else { 1 });
        i += 1;
    }
    let mut e = 0;
    while e < extra {
        is_circle.push(kani::any());
        e += 1;
    }
    let mut diffs = Vec::new();
    for i in 1..n {
        let t = 500.0 * i as f64;
        diffs.push(ManiaDifficultyObject { idx: i - 1, base_column: i % 4, delta_time: 500.0, start_time: t, end_time: t });
    }
    let idx: usize = kani::any();
    kani::assume(idx <= diffs.len() + 1);
    if n == 0 {
        kani::assume(idx == 0);
    }
    // `new` counts the first object up front
    let counted = if n == 0 { 0 } else if idx == 0 { 1 } else { idx };
    let note_state = NoteState { curr_combo: prefix[counted].0, n_hold_notes: prefix[counted].1 };
    let g = ManiaGradualDifficulty {
        idx,
        difficulty: Difficulty::new(),
        objects_is_circle: is_circle.into_boxed_slice(),
        is_convert: kani::any(),
        strain: Strain::new(4),
        diff_objects: diffs.into_boxed_slice(),
        note_state,
    };
    (g, prefix)
}

fn invariant(g: &ManiaGradualDifficulty, n: usize) -> bool {
    g.objects_is_circle.len() >= n
        && g.diff_objects.len() + 1 == if n == 0 { 1 } else { n }
        && g.idx <= g.diff_objects.len() + 1
        && (n > 0 || g.idx == 0)
}

fn step_protocol(n: usize) {
    step_protocol_limited(n, 0)
}

fn step_protocol_limited(n: usize, extra: usize) {
    let (mut g, prefix) = any_state_limited(n, extra);
    let idx0 = g.idx;
    let conv = g.is_convert;
    let remaining = n - idx0;
    assert!(g.len() == remaining, "C15.a len() == number of values still to come");
    assert!(g.size_hint() == (remaining, Some(remaining)), "C15.a size_hint() == (remaining, Some(remaining))");
    let consumed;
    let ret;
    if kani::any() {
        ret = g.next();
        assert!(ret.is_some() == (remaining > 0), "C15.b next() is Some iff values remain");
        consumed = if remaining > 0 { 1 } else { 0 };
    } else {
        let k: usize = kani::any();
        ret = g.nth(k);
        assert!(ret.is_some() == (k < remaining), "C15.c nth(k) is Some iff more than k values remain");
        consumed = if k < remaining { k + 1 } else { remaining };
    }
    assert!(g.idx == idx0 + consumed, "C15.bc exactly min(k+1, remaining) values are consumed");
    assert!(invariant(&g, n), "C15.d representation invariant preserved (exhausted stays exhausted, no overflow)");
    assert!(g.len() == remaining - consumed, "C15.d len() decreases by the number of consumed values");
    if let Some(a) = ret {
        let (combo, holds) = prefix[g.idx];
        assert!(a.n_objects as usize == g.idx, "C02 the i-th gradual value reports i objects");
        assert!(a.max_combo == combo && a.n_hold_notes == holds, "C02 the i-th gradual value counts combo and hold notes of exactly the first i objects");
        assert!(a.is_convert == conv, "C14 is_convert copied from the map");
    }
    std::mem::forget(g);
}

fn step_processed(n: usize) {
    let (mut g, _) = any_state(n);
    let idx0 = g.idx;
    let remaining = n - idx0;
    let consumed = if kani::any() {
        let _ = g.next();
        if remaining > 0 { 1 } else { 0 }
    } else {
        let k: usize = kani::any();
        let _ = g.nth(k);
        if k < remaining { k + 1 } else { remaining }
    };
    let first = if idx0 == 0 { 0 } else { idx0 - 1 };
    let end = if idx0 + consumed == 0 { 0 } else { idx0 + consumed - 1 };
    let expect = if end > first { end - first } else { 0 };
    unsafe {
        assert!(LOG_N == expect, "C02 one operation processes exactly the difficulty objects of the consumed objects");
        let mut i = 0;
        while i < expect && i < 8 {
            assert!(LOG[i] == first + i, "C02 difficulty objects are processed once each, in order");
            i += 1;
        }
    }
    // dropping the calculator is not under contract here (drop glue of the object arrays is expensive for CBMC)
    std::mem::forget(g);
}

macro_rules! h {
    ($name:ident, $f:ident, $n:expr) => {
        #[kani::proof]
        #[kani::unwind(8)]
        #[kani::stub(<Strain as StrainSkill>::process, stub_process)]
        #[kani::stub(<Strain as StrainSkill>::cloned_difficulty_value, stub_value)]
        fn $name() {
            $f($n);
        }
    };
}

//@ obl: id=U12.mania.protocol.n0 harness=u12_mania_protocol_n0 props=C15,C02,C03 tier=quick kind=bounded
//@ fns: ManiaGradualDifficulty::next, ManiaGradualDifficulty::nth, ManiaGradualDifficulty::len, ManiaGradualDifficulty::size_hint, increment_combo, increment_combo_raw
//@ bound: bounded: N = 0 objects; idx and nth argument k range over all usize
//@ clause: C15 (a) len()==remaining, size_hint()==(remaining,Some(remaining)); (b) next() Some iff remaining>0, then idx'=idx+1, else unchanged; (c) nth(k) Some iff k<remaining, consumes min(k+1,remaining); (d) invariant preserved, no overflow / index panic; the i-th value reports n_objects == i, and combo / hold-note counts of exactly the first i objects
h!(u12_mania_protocol_n0, step_protocol, 0);
//@ obl: id=U12.mania.protocol.n1 harness=u12_mania_protocol_n1 props=C15,C02,C03 tier=quick kind=bounded
//@ fns: ManiaGradualDifficulty::next, ManiaGradualDifficulty::nth, ManiaGradualDifficulty::len, ManiaGradualDifficulty::size_hint
//@ bound: bounded: N = 1; idx, k all usize
//@ clause: as U12.mania.protocol.n0
h!(u12_mania_protocol_n1, step_protocol, 1);
//@ obl: id=U12.mania.protocol.n2 harness=u12_mania_protocol_n2 props=C15,C02,C03 tier=quick kind=bounded
//@ fns: ManiaGradualDifficulty::next, ManiaGradualDifficulty::nth, ManiaGradualDifficulty::len, ManiaGradualDifficulty::size_hint
//@ bound: bounded: N = 2; idx, k all usize
//@ clause: as U12.mania.protocol.n0
h!(u12_mania_protocol_n2, step_protocol, 2);
//@ obl: id=U12.mania.protocol.n3 harness=u12_mania_protocol_n3 props=C15,C02,C03 tier=quick kind=bounded
//@ fns: ManiaGradualDifficulty::next, ManiaGradualDifficulty::nth, ManiaGradualDifficulty::len, ManiaGradualDifficulty::size_hint
//@ bound: bounded: N = 3; idx, k all usize
//@ clause: as U12.mania.protocol.n0
h!(u12_mania_protocol_n3, step_protocol, 3);
//@ obl: id=U12.mania.protocol.n4 harness=u12_mania_protocol_n4 props=C15,C02,C03 tier=thorough kind=bounded budget=3000
//@ fns: ManiaGradualDifficulty::next, ManiaGradualDifficulty::nth, ManiaGradualDifficulty::len, ManiaGradualDifficulty::size_hint
//@ bound: bounded: N = 4; idx, k all usize
//@ clause: as U12.mania.protocol.n0
h!(u12_mania_protocol_n4, step_protocol, 4);
//@ obl: id=U12.mania.processed.n3 harness=u12_mania_processed_n3 stubs=yes props=C02 tier=quick kind=bounded
//@ fns: ManiaGradualDifficulty::next, ManiaGradualDifficulty::nth
//@ bound: bounded: N = 3; idx, k all usize
//@ clause: C02: one next()/nth(k) processes exactly the difficulty objects belonging to the consumed objects (object j+1 -> difficulty object j), each once and in increasing order
h!(u12_mania_processed_n3, step_processed, 3);

// ---- C03: gradual performance = one-shot performance of the partial play ------------------------------------------
use crate::mania::performance::gradual::ManiaGradualPerformance;
use crate::mania::performance::ManiaPerformance;
use crate::mania::{ManiaPerformanceAttributes, ManiaScoreState};

// Everything the recording stub needs is kept as plain data (no enums with heap variants travel through statics, which
// would make CBMC explore BTreeMap / Beatmap clones).
static mut EXP_BITS: u32 = 0;
static mut EXP_PASSED: Option<u32> = None;
static mut EXP_RATE: bool = false;
static mut EXP_LAZER: Option<bool> = None;
static mut EXP_STATE: [u32; 8] = [0; 8];
static mut EXP_I: u32 = 0;
static mut REC_CALLS: u32 = 0;
static mut REC_MATCH: bool = false;

/// the settings the caller created the gradual calculator with (possibly carrying their own passed_objects)
fn user_difficulty() -> Difficulty {
    unsafe {
        let mut d = Difficulty::new().mods(EXP_BITS);
        if let Some(p) = EXP_PASSED {
            d = d.passed_objects(p);
        }
        if EXP_RATE {
            // a concrete non-default rate: forwarding is by cloning the whole Difficulty; a symbolic rate would drag
            // the modes' float combo arithmetic into the formula
            d = d.clock_rate(1.5);
        }
        if let Some(l) = EXP_LAZER {
            d = d.lazer(l);
        }
        d
    }
}

fn user_state() -> ManiaScoreState {
    unsafe { ManiaScoreState { n320: EXP_STATE[0], n300: EXP_STATE[1], n200: EXP_STATE[2], n100: EXP_STATE[3], n50: EXP_STATE[4], misses: EXP_STATE[5] } }
}

/// Recording replacement for `ManiaPerformance::calculate` (the float pp pipeline): checks the builder it is called on
/// against what a one-shot user builds from the same attributes:
/// Performance(attrs).difficulty(D).passed_objects(i).state(S) - i.e. applying exactly those settings changes nothing.
fn rec_calculate<'map>(this: ManiaPerformance<'map>) -> Result<ManiaPerformanceAttributes, crate::model::mode::ConvertError>
where
    'map: 'map, // early-bound, so that the generic parameter count matches the stubbed method
{
    unsafe {
        REC_CALLS += 1;
        let expect = this.clone().difficulty(user_difficulty()).passed_objects(EXP_I).state(user_state());
        REC_MATCH = this == expect;
        std::mem::forget(expect);
    }
    std::mem::forget(this);
    Ok(ManiaPerformanceAttributes::default())
}

fn perf_step(n: usize) {
    let (mut g, _) = any_state(n);
    unsafe {
        EXP_BITS = kani::any();
        EXP_PASSED = if kani::any() { Some(kani::any()) } else { None };
        EXP_RATE = kani::any();
        EXP_LAZER = if kani::any() { Some(kani::any()) } else { None };
        EXP_STATE = kani::any();
    }
    g.difficulty = user_difficulty();
    let lazer = g.difficulty.get_lazer();
    let _ = lazer;
    let idx0 = g.idx;
    let remaining = n - idx0;
    let mut p = ManiaGradualPerformance::__verif_from_parts(g);
    let which: u8 = kani::any();
    let k: usize = kani::any();
    let consumed = match which % 3 {
        0 => if remaining > 0 { 1 } else { 0 },
        1 => remaining,
        _ => if k < remaining { k + 1 } else { remaining },
    };
    unsafe {
        EXP_I = (idx0 + consumed) as u32;
    }
    let ret = match which % 3 {
        0 => p.next(user_state()),
        1 => p.last(user_state()),
        _ => p.nth(user_state(), k),
    };
    assert!(p.len() == remaining - consumed, "C15.e gradual performance processes min(n+1, remaining) objects (last: all remaining)");
    assert!(ret.is_some() == (remaining > 0), "C15.e gradual performance returns None exactly when nothing remains");
    unsafe {
        if remaining == 0 {
            assert!(REC_CALLS == 0, "C03 nothing is calculated when nothing remains");
        } else {
            assert!(REC_CALLS == 1, "C03 exactly one performance calculation per step");
            assert!(REC_MATCH, "C03 gradual performance evaluates exactly the one-shot builder: same settings, passed_objects(i), same state");
        }
    }
    std::mem::forget(p);
}

macro_rules! hp {
    ($name:ident, $n:expr) => {
        #[kani::proof]
        #[kani::unwind(8)]
        #[kani::stub(<Strain as StrainSkill>::process, stub_process)]
        #[kani::stub(<Strain as StrainSkill>::cloned_difficulty_value, stub_value)]
        #[kani::stub(crate::mania::performance::ManiaPerformance::calculate, rec_calculate)]
        fn $name() {
            perf_step($n);
        }
    };
}

//@ obl: id=U12.mania.perf.n0 harness=u12_mania_perf_n0 stubs=yes props=C03,C15 tier=quick kind=bounded
//@ fns: ManiaGradualPerformance::next, ManiaGradualPerformance::nth, ManiaGradualPerformance::last, ManiaGradualPerformance::len
//@ bound: bounded: 0 objects; calculator position, the nth argument, the score state (all u32 fields) and the caller's Difficulty (mods bits, passed_objects, lazer symbolic; clock rate unset or 1.5) symbolic; ManiaPerformance::calculate replaced by a recording stub
//@ clause: C15 (e): nth(state, n) processes min(n+1, remaining) objects, last processes all remaining, next one; None exactly when nothing remains. C03: the performance builder that gets calculated equals Performance(attributes after i objects).difficulty(D).passed_objects(i).state(S) field for field, i = objects consumed so far
hp!(u12_mania_perf_n0, 0);

//@ obl: id=U12.mania.perf.n2 harness=u12_mania_perf_n2 stubs=yes props=C03,C15 tier=quick kind=bounded
//@ fns: ManiaGradualPerformance::next, ManiaGradualPerformance::nth, ManiaGradualPerformance::last, ManiaGradualPerformance::len
//@ bound: bounded: 2 objects; calculator position, the nth argument, the score state (all u32 fields) and the caller's Difficulty (mods bits, passed_objects, lazer symbolic; clock rate unset or 1.5) symbolic; ManiaPerformance::calculate replaced by a recording stub
//@ clause: C15 (e): nth(state, n) processes min(n+1, remaining) objects, last processes all remaining, next one; None exactly when nothing remains. C03: the performance builder that gets calculated equals Performance(attributes after i objects).difficulty(D).passed_objects(i).state(S) field for field, i = objects consumed so far
hp!(u12_mania_perf_n2, 2);

//@ obl: id=U12.mania.perf.n3 harness=u12_mania_perf_n3 stubs=yes props=C03,C15 tier=thorough kind=bounded budget=3000
//@ fns: ManiaGradualPerformance::next, ManiaGradualPerformance::nth, ManiaGradualPerformance::last, ManiaGradualPerformance::len
//@ bound: bounded: 3 objects; calculator position, the nth argument, the score state (all u32 fields) and the caller's Difficulty (mods bits, passed_objects, lazer symbolic; clock rate unset or 1.5) symbolic; ManiaPerformance::calculate replaced by a recording stub
//@ clause: C15 (e): nth(state, n) processes min(n+1, remaining) objects, last processes all remaining, next one; None exactly when nothing remains. C03: the performance builder that gets calculated equals Performance(attributes after i objects).difficulty(D).passed_objects(i).state(S) field for field, i = objects consumed so far
hp!(u12_mania_perf_n3, 3);

// ---- base case component: the difficulty-object array built by `create_difficulty_objects` -------------------------
fn base_case(n: usize) {
    let mut objs: Vec<ManiaObject> = Vec::with_capacity(4);
    let mut i = 0;
    while i < n {
        let t = 500.0 * i as f64;
        objs.push(ManiaObject { start_time: t, end_time: t, column: i % 4 });
        i += 1;
    }
    let d = DifficultyValues::create_difficulty_objects(1.0, objs.into_iter());
    assert!(d.len() + 1 == if n == 0 { 1 } else { n }, "C02 one difficulty object per hit object after the first");
    let mut j = 0;
    while j < d.len() {
        assert!(d[j].idx == j, "C02 difficulty objects are indexed in object order");
        j += 1;
    }
    std::mem::forget(d);
}

//@ obl: id=U12.mania.base_case harness=u12_mania_base_case props=C02,C15 tier=quick kind=bounded
//@ fns: mania DifficultyValues::create_difficulty_objects
//@ bound: bounded: 0, 1, 2 and 3 hit objects
//@ clause: part of the invariant's base case: create_difficulty_objects returns max(N,1)-1 difficulty objects, the j-th with idx == j
#[kani::proof]
#[kani::unwind(6)]
fn u12_mania_base_case() {
    base_case(0);
    base_case(1);
    base_case(2);
    base_case(3);
}

//@ obl: id=U12.mania.protocol.limited harness=u12_mania_protocol_limited props=C15,C02,C03 tier=quick kind=bounded
//@ fns: ManiaGradualDifficulty::next, ManiaGradualDifficulty::nth, ManiaGradualDifficulty::len, ManiaGradualDifficulty::size_hint
//@ bound: bounded: calculator created with a passed_objects limit: map of 3 objects of which 2 are yielded; idx, k all usize
//@ clause: as U12.mania.protocol.n0 for a limited calculator: len()/size_hint() count the values that will actually be produced (the difficulty objects), not the objects of the whole map
#[kani::proof]
#[kani::unwind(8)]
#[kani::stub(<Strain as StrainSkill>::process, stub_process)]
#[kani::stub(<Strain as StrainSkill>::cloned_difficulty_value, stub_value)]
fn u12_mania_protocol_limited() {
    step_protocol_limited(2, 1);
}

// ---- base case: `new` on small native mania maps -----------------------------------------------------------------------
// Hit objects stored in the map's Vec lose their concrete discriminant for CBMC's symbolic execution, which then walks
// rosu-map's curve code for every object. ManiaObject::new (obligations U11.mania.object.*) is therefore replaced by a
// stub with the real function's results for circles / spinners / hold notes and a symbolic duration for sliders: what is
// proved is the call-site contract - the constructor takes the first object's combo from its ManiaObject's times.
static mut NEW_END: f64 = 0.0;
/// what the real ManiaObject::new returns for circles, spinners and hold notes (U11.mania.object.*); for a slider the
/// duration (curve length / velocity, float geometry) is the symbolic NEW_END
fn stub_mania_object_new(h: &crate::model::hit_object::HitObject, _total_columns: f32, _params: &mut ObjectParams<'_>) -> ManiaObject {
    use crate::model::hit_object::{HitObjectKind, HoldNote, Spinner};
    let duration = match h.kind {
        HitObjectKind::Circle => 0.0,
        HitObjectKind::Slider(_) => unsafe { NEW_END },
        HitObjectKind::Spinner(Spinner { duration }) | HitObjectKind::Hold(HoldNote { duration }) => duration,
    };
    ManiaObject { start_time: h.start_time, end_time: h.start_time + duration, column: 0 }
}

/// kinds are concrete per call (0 circle, 1 hold note, 2 slider)
fn new_first_object(kind: u8, n: usize) {
    use crate::model::hit_object::{HitObject, HitObjectKind, HoldNote, Slider};
    use rosu_map::section::hit_objects::hit_samples::HitSoundType;
    use rosu_map::util::Pos;
    let mut map = Beatmap::default();
    map.mode = GameMode::Mania;
    map.cs = 4.0;
    let dur: f64 = kani::any();
    kani::assume(dur >= 0.0 && dur <= 1.0e6);
    unsafe { NEW_END = dur };
    let hold: f64 = kani::any();
    kani::assume(hold >= 0.0 && hold <= 1.0e6);
    let k = match kind {
        0 => HitObjectKind::Circle,
        1 => HitObjectKind::Hold(HoldNote { duration: hold }),
        _ => HitObjectKind::Slider(Slider { expected_dist: None, repeats: 0, control_points: Vec::new().into_boxed_slice(), node_sounds: Vec::new().into_boxed_slice() }),
    };
    map.hit_objects.push(HitObject { pos: Pos::new(100.0, 192.0), start_time: 1000.0, kind: k });
    map.hit_sounds.push(HitSoundType::default());
    let mut i = 1;
    while i < n {
        map.hit_objects.push(HitObject { pos: Pos::new(300.0, 192.0), start_time: 1000.0 + 500.0 * i as f64, kind: HitObjectKind::Circle });
        map.hit_sounds.push(HitSoundType::default());
        i += 1;
    }
    let g = match ManiaGradualDifficulty::new(Difficulty::new(), &map) {
        Ok(g) => g,
        Err(_) => {
            assert!(false, "C07 a mania map needs no conversion");
            return;
        }
    };
    assert!(g.idx == 0, "C15 a new calculator is at position 0");
    assert!(g.objects_is_circle.len() == n, "C02 base case: one flag per hit object");
    assert!(g.diff_objects.len() + 1 == n, "C02 base case: one difficulty object per hit object after the first");
    assert!(g.objects_is_circle[0] == (kind == 0), "C02 base case: flag of the first object");
    assert!(!g.is_convert, "C14 a mania map is not a convert");
    // what increment_combo_raw makes of the first ManiaObject's times
    let mut expect = NoteState::default();
    let first_end = 1000.0 + match kind { 0 => 0.0, 1 => hold, _ => dur };
    increment_combo_raw(kind == 0, 1000.0, first_end, &mut expect);
    assert!(g.note_state.curr_combo == expect.curr_combo, "C02 base case: the first object's combo comes from its ManiaObject (start / end time)");
    assert!(g.note_state.n_hold_notes == expect.n_hold_notes && expect.n_hold_notes == u32::from(kind != 0),
            "C02 base case: the first object is a hold note unless it is a circle");
    assert!(g.len() == n, "C02 the calculator announces one value per hit object");
    std::mem::forget(g);
    std::mem::forget(map);
}

//@ obl: id=U12.mania.new.circle2 harness=u12_mania_new_circle2 stubs=yes props=C02,C15 tier=quick kind=bounded
//@ fns: ManiaGradualDifficulty::new, increment_combo_raw, mania DifficultyValues::create_difficulty_objects
//@ bound: bounded: native 4K mania map of two objects: a circle followed by a circle; ManiaObject::new replaced by a stub returning what the real function returns for circles and hold notes and start + a symbolic duration in [0, 1e6] for sliders; hold duration symbolic in [0, 1e6]; default Difficulty. (One-object maps: CBMC reports deallocation failures inside std for every kind - an artifact of the symbolic-discriminant Cow / Vec drop glue; the same call runs clean under Miri - so they are not registered.)
//@ clause: base case of the gradual invariant on the real constructor: idx == 0, one circle flag per hit object, N-1 difficulty objects, len() == N, and the combo / hold-note count of the first object are what increment_combo_raw makes of the first object's ManiaObject times - for a slider its computed duration, not the raw hit object's end time (call-site contract; ManiaObject::new itself: U11.mania.object.*)
#[kani::proof]
#[kani::unwind(4)]
#[kani::stub(ManiaObject::new, stub_mania_object_new)]
fn u12_mania_new_circle2() {
    new_first_object(0, 2);
}

//@ obl: id=U12.mania.new.hold2 harness=u12_mania_new_hold2 stubs=yes props=C02,C15 tier=quick kind=bounded
//@ fns: ManiaGradualDifficulty::new, increment_combo_raw, mania DifficultyValues::create_difficulty_objects
//@ bound: bounded: native 4K mania map of two objects: a hold note followed by a circle; ManiaObject::new replaced by a stub returning what the real function returns for circles and hold notes and start + a symbolic duration in [0, 1e6] for sliders; hold duration symbolic in [0, 1e6]; default Difficulty. (One-object maps: CBMC reports deallocation failures inside std for every kind - an artifact of the symbolic-discriminant Cow / Vec drop glue; the same call runs clean under Miri - so they are not registered.)
//@ clause: base case of the gradual invariant on the real constructor: idx == 0, one circle flag per hit object, N-1 difficulty objects, len() == N, and the combo / hold-note count of the first object are what increment_combo_raw makes of the first object's ManiaObject times - for a slider its computed duration, not the raw hit object's end time (call-site contract; ManiaObject::new itself: U11.mania.object.*)
#[kani::proof]
#[kani::unwind(4)]
#[kani::stub(ManiaObject::new, stub_mania_object_new)]
fn u12_mania_new_hold2() {
    new_first_object(1, 2);
}

//@ obl: id=U12.mania.new.slider2 harness=u12_mania_new_slider2 stubs=yes props=C02,C15 tier=quick kind=bounded
//@ fns: ManiaGradualDifficulty::new, increment_combo_raw, mania DifficultyValues::create_difficulty_objects
//@ bound: bounded: native 4K mania map of two objects: a slider followed by a circle; ManiaObject::new replaced by a stub returning what the real function returns for circles and hold notes and start + a symbolic duration in [0, 1e6] for sliders; hold duration symbolic in [0, 1e6]; default Difficulty. (One-object maps: CBMC reports deallocation failures inside std for every kind - an artifact of the symbolic-discriminant Cow / Vec drop glue; the same call runs clean under Miri - so they are not registered.)
//@ clause: base case of the gradual invariant on the real constructor: idx == 0, one circle flag per hit object, N-1 difficulty objects, len() == N, and the combo / hold-note count of the first object are what increment_combo_raw makes of the first object's ManiaObject times - for a slider its computed duration, not the raw hit object's end time (call-site contract; ManiaObject::new itself: U11.mania.object.*)
#[kani::proof]
#[kani::unwind(4)]
#[kani::stub(ManiaObject::new, stub_mania_object_new)]
fn u12_mania_new_slider2() {
    new_first_object(2, 2);
}

