//@ unit: attrs_value
//@ target: src/model/beatmap/attributes.rs
use super::*;

//@ obl: id=U8.mods.value harness=u8_mods_dependent_value props=C08,C17 tier=quick kind=proof
//@ fns: ModsDependentKind::value, ModsDependentKind::with_mods
//@ bound: loop-free; every f32 / f64 bit pattern, both kinds, mod-provided value present or absent
//@ clause: a map's own (Default) attribute is replaced by a mod-provided value (lazer DifficultyAdjust) exactly as given - `n as f32`, no clamping - and kept when the mods provide none; an explicit (Custom) override always wins unchanged - so a DifficultyAdjust value means the same as the corresponding Difficulty::ar/cs/hp/od(value, false) override
#[kani::proof]
fn u8_mods_dependent_value() {
    let v: f32 = kani::any();
    let w: bool = kani::any();
    let inner = ModsDependent { value: v, with_mods: w };
    let provided: Option<f64> = if kani::any() { Some(kani::any()) } else { None };
    let mods = GameMods::default();
    let d = ModsDependentKind::Default(inner).value(&mods, |_| provided);
    let c = ModsDependentKind::Custom(inner).value(&mods, |_| provided);
    assert!(c.to_bits() == v.to_bits(), "C08 explicit override is used unchanged");
    match provided {
        Some(n) => assert!(d.to_bits() == (n as f32).to_bits(), "C08 mod-provided attribute is used exactly as given"),
        None => assert!(d.to_bits() == v.to_bits(), "C08 map attribute kept when the mods provide none"),
    }
    assert!(ModsDependentKind::Default(inner).with_mods() == w && ModsDependentKind::Custom(inner).with_mods() == w, "C17 with_mods flag read back");
}

fn any_mode() -> GameMode {
    let k: u8 = kani::any();
    match k % 4 {
        0 => GameMode::Osu,
        1 => GameMode::Taiko,
        2 => GameMode::Catch,
        _ => GameMode::Mania,
    }
}

fn in_0_10() -> f32 {
    let v: f32 = kani::any();
    kani::assume(v >= 0.0 && v <= 10.0);
    v
}

fn any_rate() -> f64 {
    let c: f64 = kani::any();
    kani::assume(c >= 0.01 && c <= 100.0);
    c
}

//@ obl: id=U13.cs_hp_passthrough harness=u13_cs_hp_passthrough props=C17 tier=quick kind=proof
//@ fns: BeatmapAttributesBuilder::build, BeatmapAttributesBuilder::{cs,hp,mods,clock_rate,mode}
//@ bound: loop-free; all modes / convert flags, all legacy mod bits, clock rates in [0.01, 100], CS any non-NaN f32, HP in [0, 10]
//@ clause: a CS or HP supplied with with_mods=true is reported back unchanged by build(), regardless of mods and clock rate; build() reports the clock rate it was given
#[kani::proof]
#[kani::unwind(3)]
fn u13_cs_hp_passthrough() {
    let cs: f32 = kani::any();
    kani::assume(!cs.is_nan());
    let hp = in_0_10();
    let bits: u32 = kani::any();
    let rate = any_rate();
    let b = BeatmapAttributesBuilder::new().mode(any_mode(), kani::any()).mods(bits).clock_rate(rate).cs(cs, true).hp(hp, true);
    let a = b.build();
    assert!(a.cs.to_bits() == f64::from(cs).to_bits(), "C17 CS given with_mods=true is reported back unchanged");
    assert!(a.hp.to_bits() == f64::from(hp).to_bits(), "C17 HP given with_mods=true is reported back unchanged");
    assert!(a.clock_rate.to_bits() == rate.to_bits(), "C17 build reports the clock rate in effect");
}

//@ obl: id=U13.window_shape harness=u13_window_shape props=C17 tier=quick kind=proof
//@ fns: BeatmapAttributesBuilder::hit_windows
//@ bound: loop-free; all modes / convert flags, all legacy mod bits, clock rates in [0.01,100], AR/OD in [0,10], both with_mods flags
//@ clause: ok / meh windows exist exactly where the mode has them (osu, catch: both; taiko: ok only; mania: neither); no window is NaN
#[kani::proof]
#[kani::unwind(3)]
fn u13_window_shape() {
    let mode = any_mode();
    let b = BeatmapAttributesBuilder::new()
        .mode(mode, kani::any())
        .mods(kani::any::<u32>())
        .clock_rate(any_rate())
        .ar(in_0_10(), kani::any())
        .od(in_0_10(), kani::any());
    let w = b.hit_windows();
    let (ok, meh) = match mode {
        GameMode::Osu | GameMode::Catch => (true, true),
        GameMode::Taiko => (true, false),
        GameMode::Mania => (false, false),
    };
    assert!(w.od_ok.is_some() == ok && w.od_meh.is_some() == meh, "C17 ok/meh windows exist exactly where the mode defines them");
    assert!(!w.ar.is_nan() && !w.od_great.is_nan(), "C17 windows are numbers");
}

fn rate_independent(mode: GameMode, ar: f32, od: f32) {
    let bits: u32 = kani::any();
    let (ar_wm, od_wm): (bool, bool) = (kani::any(), kani::any());
    let base = BeatmapAttributesBuilder::new().mode(mode, kani::any()).mods(bits).ar(ar, ar_wm).od(od, od_wm);
    let w1 = base.clone().clock_rate(any_rate()).hit_windows();
    // the second rate is the neutral one: a with_mods value must give the windows it gives at rate 1
    let w2 = base.clock_rate(1.0).hit_windows();
    if od_wm {
        assert!(w1.od_great.to_bits() == w2.od_great.to_bits(), "C17 OD given with_mods=true: great window independent of the clock rate");
        assert!(w1.od_ok.map(f64::to_bits) == w2.od_ok.map(f64::to_bits), "C17 OD given with_mods=true: ok window independent of the clock rate");
        assert!(w1.od_meh.map(f64::to_bits) == w2.od_meh.map(f64::to_bits), "C17 OD given with_mods=true: meh window independent of the clock rate");
    }
    if ar_wm {
        assert!(w1.ar.to_bits() == w2.ar.to_bits(), "C17 AR given with_mods=true: preempt independent of the clock rate");
    }
}

//@ obl: id=U13.with_mods_ignores_rate harness=u13_with_mods_ignores_rate props=C17 tier=quick kind=bounded
//@ fns: BeatmapAttributesBuilder::hit_windows
//@ bound: bounded: one concrete AR/OD pair (3.5, 8.25) in the quick tier, a grid in the thorough tier (symbolic values make the solver compare two copies of the same float circuit, which does not finish); osu/catch/taiko, all legacy mod bits, an arbitrary clock rate in [0.01,100] compared with rate 1, the two with_mods flags independent and symbolic
//@ clause: an OD given with with_mods=true yields hit windows that do not depend on the clock rate (bit-identical for any two rates) whatever the AR flag is, and likewise the AR window for an AR given with with_mods=true - this is what makes the value come back unchanged from build()
#[kani::proof]
#[kani::unwind(3)]
fn u13_with_mods_ignores_rate() {
    let mode = any_mode();
    kani::assume(!matches!(mode, GameMode::Mania));
    rate_independent(mode, 3.5, 8.25);
}

//@ obl: id=U13.with_mods_ignores_rate.grid harness=u13_with_mods_ignores_rate_grid props=C17 tier=thorough kind=bounded budget=2400
//@ fns: BeatmapAttributesBuilder::hit_windows
//@ bound: bounded: AR/OD grid {0, 5, 8.25, 10} x {10, 5, 3.5, 0}; otherwise as U13.with_mods_ignores_rate
//@ clause: as U13.with_mods_ignores_rate
#[kani::proof]
#[kani::unwind(3)]
fn u13_with_mods_ignores_rate_grid() {
    let mode = any_mode();
    kani::assume(!matches!(mode, GameMode::Mania));
    rate_independent(mode, 0.0, 10.0);
    rate_independent(mode, 5.0, 5.0);
    rate_independent(mode, 8.25, 3.5);
    rate_independent(mode, 10.0, 0.0);
}

//@ obl: id=U13.hr_ez_order harness=u13_hr_ez_order props=C17 tier=quick kind=proof
//@ fns: (the mod multiplier of BeatmapAttributesBuilder::hit_windows / build, restated)
//@ bound: loop-free; all f32 in [0, 10]
//@ clause: on [0,10] the HardRock value (v*1.4).min(10) is never below v and the Easy value v*0.5 never above it; with monotone windows (U13.monotone.*) HR never yields easier and EZ never harder values than no mod
#[kani::proof]
fn u13_hr_ez_order() {
    let v = in_0_10();
    assert!((v * 1.4).min(10.0) >= v && v * 0.5 <= v, "C17 HR raises and EZ lowers an attribute in [0,10]");
    assert!((v * 1.3).min(10.0) >= v, "C17 HR raises CS");
}

macro_rules! monotone {
    ($name:ident, $w:ident) => {
        #[kani::proof]
        fn $name() {
            let (a, b) = (in_0_10(), in_0_10());
            kani::assume(a <= b);
            let (ra, rb) = (difficulty_range(f64::from(a), $w), difficulty_range(f64::from(b), $w));
            assert!(ra >= rb, "C17 windows shrink (weakly) as the attribute grows");
        }
    };
}

//@ obl: id=U13.monotone.osu_great harness=u13_monotone_osu_great props=C17 tier=thorough kind=proof budget=2400
//@ fns: difficulty_range
//@ bound: loop-free; all pairs of f32 values in [0,10] (the call sites pass f64::from(f32))
//@ clause: difficulty_range is monotone non-increasing on [0,10] for the osu! great window table
monotone!(u13_monotone_osu_great, OSU_GREAT);
//@ obl: id=U13.monotone.osu_ok harness=u13_monotone_osu_ok props=C17 tier=thorough kind=proof budget=2400
//@ fns: difficulty_range
//@ bound: as U13.monotone.osu_great
//@ clause: monotone non-increasing for the osu! ok window table
monotone!(u13_monotone_osu_ok, OSU_OK);
//@ obl: id=U13.monotone.osu_meh harness=u13_monotone_osu_meh props=C17 tier=thorough kind=proof budget=2400
//@ fns: difficulty_range
//@ bound: as U13.monotone.osu_great
//@ clause: monotone non-increasing for the osu! meh window table
monotone!(u13_monotone_osu_meh, OSU_MEH);
//@ obl: id=U13.monotone.taiko_great harness=u13_monotone_taiko_great props=C17 tier=thorough kind=proof budget=2400
//@ fns: difficulty_range
//@ bound: as U13.monotone.osu_great
//@ clause: monotone non-increasing for the taiko great window table
monotone!(u13_monotone_taiko_great, TAIKO_GREAT);
//@ obl: id=U13.monotone.taiko_ok harness=u13_monotone_taiko_ok props=C17 tier=thorough kind=proof budget=2400
//@ fns: difficulty_range
//@ bound: as U13.monotone.osu_great
//@ clause: monotone non-increasing for the taiko ok window table
monotone!(u13_monotone_taiko_ok, TAIKO_OK);
// NOTE: the same obligation for the approach-rate table (AR_WINDOWS: 1800 / 1200 / 450) did not finish within 40 min,
// neither as one harness nor split into lower half / upper half / pivot; it is not registered.

//@ obl: id=U13.ar_irrelevant_for_od harness=u13_ar_irrelevant_for_od props=C18,C17 tier=quick kind=bounded budget=900
//@ fns: BeatmapAttributesBuilder::hit_windows
//@ bound: bounded: OD fixed to 7.25 and the clock rate to 1.5 (symbolic values make the solver compare two copies of the same float circuit); all four modes, all legacy mod bits, clock rate 1.5, OD flag symbolic; two arbitrary AR overrides (values in [0,10], both flags)
//@ clause: the OD hit windows do not depend on the AR override at all - neither its value nor its with_mods flag - so an AR setting (documented as irrelevant for taiko and mania) cannot change their hit windows
#[kani::proof]
#[kani::unwind(3)]
fn u13_ar_irrelevant_for_od() {
    let base = BeatmapAttributesBuilder::new()
        .mode(any_mode(), kani::any())
        .mods(kani::any::<u32>())
        .clock_rate(1.5)
        .od(7.25, kani::any());
    let w1 = base.clone().ar(in_0_10(), kani::any()).hit_windows();
    let w2 = base.ar(in_0_10(), kani::any()).hit_windows();
    assert!(w1.od_great.to_bits() == w2.od_great.to_bits(), "C18 the AR override does not influence the great hit window");
    assert!(w1.od_ok.map(f64::to_bits) == w2.od_ok.map(f64::to_bits), "C18 the AR override does not influence the ok hit window");
    assert!(w1.od_meh.map(f64::to_bits) == w2.od_meh.map(f64::to_bits), "C18 the AR override does not influence the meh hit window");
}
