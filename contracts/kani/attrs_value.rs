//@ unit: attrs_value
//@ target: src/model/beatmap/attributes.rs
use super::*;

//@ obl: id=U8.mods.value harness=u8_mods_dependent_value props=C08,C17 tier=quick kind=proof
//@ fns: ModsDependentKind::value, ModsDependentKind::with_mods
//@ bound: loop-free; every f32 / f64 bit pattern, both kinds, mod-provided value present or absent
//@ clause: a map's own (Default) attribute is replaced by a mod-provided value (lazer DifficultyAdjust) exactly as given - `n as f32`, no clamping - and kept when the mods provide none; an explicit (Custom) override always wins unchanged - so a DifficultyAdjust value means the same as the corresponding Difficulty::ar/cs/hp/od(value, false) override
#[kani::proof]
fn u8_mods_dependent_value() {
    let v: f32 = kani::any();
    let w: bool = kani::any();
    let inner = ModsDependent { value: v, with_mods: w };
    let provided: Option<f64> = if kani::any() { Some(kani::any()) } else { None };
    let mods = GameMods::default();
    let d = ModsDependentKind::Default(inner).value(&mods, |_| provided);
    let c = ModsDependentKind::Custom(inner).value(&mods, |_| provided);
    assert!(c.to_bits() == v.to_bits(), "C08 explicit override is used unchanged");
    match provided {
        Some(n) => assert!(d.to_bits() == (n as f32).to_bits(), "C08 mod-provided attribute is used exactly as given"),
        None => assert!(d.to_bits() == v.to_bits(), "C08 map attribute kept when the mods provide none"),
    }
    assert!(ModsDependentKind::Default(inner).with_mods() == w && ModsDependentKind::Custom(inner).with_mods() == w, "C17 with_mods flag read back");
}
