//@ unit: tandem_kani
//@ target: src/util/sort/tandem.rs
//@ assume: bounded stand-in only: slice length fixed per harness (n = 5), element values fully symbolic (u8 keys)
use super::*;

fn cmp_u8(a: &u8, b: &u8) -> Ordering {
    a.cmp(b)
}

//@ obl: id=U1.tandem.kani.n5 harness=u1_tandem_sort_pairs_n5 props=C06,C19 tier=quick kind=bounded
//@ fns: TandemSorter::new_stable, TandemSorter::sort, TandemSorter::toggle_marks
//@ bound: bounded: n = 5 elements, keys any u8 (ties included); std sort_by executed, not assumed
//@ clause: new_stable + sort(objects) + sort(sounds): objects come out in non-decreasing key order, (object,sound) pairs are preserved as a multiset position-wise (sounds'[k] is the sound pushed with objects'[k]); ties keep their original relative order (stability)
#[kani::proof]
#[kani::unwind(8)]
fn u1_tandem_sort_pairs_n5() {
    const N: usize = 5;
    let keys: [u8; N] = kani::any();
    // the "sound" of object k is its original position, so pairing can be read back
    let mut objects = keys;
    let mut sounds: [u8; N] = [0, 1, 2, 3, 4];
    let mut sorter = TandemSorter::new_stable(&objects, cmp_u8);
    sorter.sort(&mut objects);
    sorter.sort(&mut sounds);
    let mut k = 0;
    while k < N {
        assert!((sounds[k] as usize) < N, "U1 sound index in range");
        assert!(objects[k] == keys[sounds[k] as usize], "U1 object and sound stay paired");
        if k + 1 < N {
            assert!(objects[k] <= objects[k + 1], "U1 objects sorted");
            if objects[k] == objects[k + 1] {
                assert!(sounds[k] < sounds[k + 1], "U1 stable: ties keep original order");
            }
        }
        k += 1;
    }
}
