//@ unit: dispatch
//@ target: src/model/beatmap/mod.rs
//@ assume: maps are object-free (empty hit object / control point vectors) with symbolic mode, is_convert and AR/CS/HP/OD in [0,10]: the decision prefix of convert/convert_ref/convert_mut does not read the objects, so this is complete for the dispatch decision, not for the converters' object handling
//@ assume: mods are GameMods::Legacy(bits) with all 2^32 bit patterns
use super::*;
use crate::{catch::Catch, mania::Mania, osu::Osu, taiko::Taiko};

fn any_mode() -> GameMode {
    let k: u8 = kani::any();
    match k % 4 {
        0 => GameMode::Osu,
        1 => GameMode::Taiko,
        2 => GameMode::Catch,
        _ => GameMode::Mania,
    }
}

fn any_empty_map() -> Beatmap {
    let mut m = Beatmap::default();
    m.mode = any_mode();
    m.is_convert = kani::any();
    m.ar = kani::any();
    m.cs = kani::any();
    m.hp = kani::any();
    m.od = kani::any();
    kani::assume(m.ar >= 0.0 && m.ar <= 10.0 && m.cs >= 0.0 && m.cs <= 10.0);
    kani::assume(m.hp >= 0.0 && m.hp <= 10.0 && m.od >= 0.0 && m.od <= 10.0);
    m
}

/// 0 = Ok, 1 = AlreadyConverted, 2 = Convert{..}; payload checked separately
fn class<T>(r: &Result<T, ConvertError>) -> (u8, Option<(GameMode, GameMode)>) {
    match r {
        Ok(_) => (0, None),
        Err(ConvertError::AlreadyConverted) => (1, None),
        Err(ConvertError::Convert { from, to }) => (2, Some((*from, *to))),
    }
}

fn same_scalars(a: &Beatmap, b: &Beatmap) -> bool {
    a.mode == b.mode
        && a.is_convert == b.is_convert
        && a.version == b.version
        && a.ar.to_bits() == b.ar.to_bits()
        && a.cs.to_bits() == b.cs.to_bits()
        && a.hp.to_bits() == b.hp.to_bits()
        && a.od.to_bits() == b.od.to_bits()
        && a.slider_multiplier.to_bits() == b.slider_multiplier.to_bits()
        && a.slider_tick_rate.to_bits() == b.slider_tick_rate.to_bits()
        && a.stack_leniency.to_bits() == b.stack_leniency.to_bits()
        && a.hit_objects.len() == b.hit_objects.len()
        && a.hit_sounds.len() == b.hit_sounds.len()
        && a.timing_points.len() == b.timing_points.len()
        && a.difficulty_points.len() == b.difficulty_points.len()
        && a.effect_points.len() == b.effect_points.len()
}

//@ obl: id=U9.convert.entry_points harness=u9_convert_entry_points_agree props=C07,C19 tier=quick kind=proof
//@ fns: Beatmap::convert, Beatmap::convert_ref, Beatmap::convert_mut, Taiko::convert, Catch::convert, Mania::convert
//@ bound: object-free maps; all 4 x 2 x 4 (mode, is_convert, target) combinations, symbolic AR/CS/HP/OD, all legacy mod bits; loops over the (empty) object lists certified by unwinding assertions (unwind 4)
//@ clause: convert, convert_ref and convert_mut return the same Ok/Err class and the same error payload; the class is: own mode -> Ok, else already converted -> AlreadyConverted, else not osu! -> Convert{from: map.mode, to: target}, else Ok; own mode is the identity (convert_ref borrows, map unchanged); an error leaves the map untouched; success sets mode == target and is_convert; all three produce equal maps (scalar fields bit-equal, same lengths); catch conversion changes only mode and is_convert
#[kani::proof]
#[kani::unwind(4)]
fn u9_convert_entry_points_agree() {
    let map = any_empty_map();
    let target = any_mode();
    let bits: u32 = kani::any();
    let mods: GameMods = rosu_mods::GameModsLegacy::from_bits(bits).into();

    let mut a = map.clone();
    let ra = a.convert_mut(target, &mods);
    let rb = map.convert_ref(target, &mods);
    let rc = map.clone().convert(target, &mods);

    let (ca, pa) = class(&ra);
    let (cb, pb) = class(&rb);
    let (cc, pc) = class(&rc);
    assert!(ca == cb && cb == cc, "C07 the three entry points agree on Ok/Err");
    assert!(pa == pb && pb == pc, "C07 the three entry points return the same error payload");

    let expect = if map.mode == target {
        0
    } else if map.is_convert {
        1
    } else if map.mode != GameMode::Osu {
        2
    } else {
        0
    };
    assert!(ca == expect, "C07 only un-converted osu! maps convert; own mode always succeeds");
    if ca == 2 {
        assert!(pa == Some((map.mode, target)), "C07 error names source and target mode");
    }

    if ca == 0 {
        let b = rb.unwrap();
        let c = match rc {
            Ok(c) => c,
            Err(_) => unreachable!(),
        };
        assert!(a.mode == target && b.mode == target && c.mode == target, "C07 result has the target mode");
        let converted = map.mode != target;
        assert!(a.is_convert == (map.is_convert || converted), "C07 result of a conversion is marked as convert");
        assert!(same_scalars(&a, &b) && same_scalars(&a, &c), "C07 the three entry points produce equal maps");
        if !converted {
            assert!(matches!(b, Cow::Borrowed(_)), "C07 own mode: convert_ref borrows");
            assert!(same_scalars(&a, &map), "C07 own mode is the identity");
        }
        if converted && target == GameMode::Catch {
            let mut m2 = map.clone();
            m2.mode = GameMode::Catch;
            m2.is_convert = true;
            assert!(same_scalars(&a, &m2), "C19 catch conversion changes only mode and is_convert");
        }
    } else {
        assert!(same_scalars(&a, &map), "C07 a failed conversion leaves the map untouched");
    }
}

// ---- every mode entry point starts with convert_ref(own mode, the Difficulty's mods) -----------------------------

static mut REC_CALLS: u32 = 0;
static mut REC_MODE: u8 = 255;
static mut REC_BITS: u32 = 0;
static mut REC_IS_LEGACY: bool = false;

/// Recording replacement for `Beatmap::convert_ref`: notes its arguments and fails, so that the caller must return at once.
fn rec_convert_ref<'a>(_this: &'a Beatmap, mode: GameMode, mods: &GameMods) -> Result<Cow<'a, Beatmap>, ConvertError> {
    unsafe {
        REC_CALLS += 1;
        REC_MODE = mode as u8;
        if let GameMods::Legacy(l) = mods {
            REC_IS_LEGACY = true;
            REC_BITS = l.bits();
        }
    }
    Err(ConvertError::AlreadyConverted)
}

fn rec_check(own: GameMode, bits: u32, is_err: bool) {
    unsafe {
        assert!(REC_CALLS == 1, "C07 entry point converts the map exactly once before anything else");
        assert!(REC_MODE == own as u8, "C07 entry point converts to its own mode");
        assert!(REC_IS_LEGACY && REC_BITS == rosu_mods::GameModsLegacy::from_bits(bits).bits(), "C07 entry point converts with the Difficulty's mods");
    }
    assert!(is_err, "C07 entry point propagates the conversion error");
}

//@ obl: id=U9.entry.difficulty harness=u9_entry_difficulty stubs=yes props=C07 tier=quick kind=proof
//@ fns: Osu::difficulty, Taiko::difficulty, Catch::difficulty, Mania::difficulty (via Difficulty::calculate_for_mode)
//@ bound: loop-free prefix; convert_ref replaced by a recording stub that fails (so only the call-site contract is checked); all legacy mod bits, any object-free map
//@ clause: each mode's difficulty() first calls map.convert_ref(<own mode>, difficulty.get_mods()) exactly once and returns its error unchanged
#[kani::proof]
#[kani::unwind(3)]
#[kani::stub(Beatmap::convert_ref, rec_convert_ref)]
fn u9_entry_difficulty() {
    let m = any_empty_map();
    let bits: u32 = kani::any();
    let d = Difficulty::new().mods(bits);
    let which: u8 = kani::any();
    let (own, is_err) = match which % 4 {
        0 => (GameMode::Osu, d.calculate_for_mode::<Osu>(&m).is_err()),
        1 => (GameMode::Taiko, d.calculate_for_mode::<Taiko>(&m).is_err()),
        2 => (GameMode::Catch, d.calculate_for_mode::<Catch>(&m).is_err()),
        _ => (GameMode::Mania, d.calculate_for_mode::<Mania>(&m).is_err()),
    };
    rec_check(own, bits, is_err);
}

//@ obl: id=U9.entry.strains harness=u9_entry_strains stubs=yes props=C07,C16 tier=quick kind=proof
//@ fns: Osu::strains, Taiko::strains, Catch::strains, Mania::strains (via Difficulty::strains_for_mode)
//@ bound: as U9.entry.difficulty
//@ clause: each mode's strains() first calls map.convert_ref(<own mode>, difficulty.get_mods()) exactly once and returns its error unchanged (so strains and difficulty are computed on the same conversion)
#[kani::proof]
#[kani::unwind(3)]
#[kani::stub(Beatmap::convert_ref, rec_convert_ref)]
fn u9_entry_strains() {
    let m = any_empty_map();
    let bits: u32 = kani::any();
    let d = Difficulty::new().mods(bits);
    let which: u8 = kani::any();
    let (own, is_err) = match which % 4 {
        0 => (GameMode::Osu, d.strains_for_mode::<Osu>(&m).is_err()),
        1 => (GameMode::Taiko, d.strains_for_mode::<Taiko>(&m).is_err()),
        2 => (GameMode::Catch, d.strains_for_mode::<Catch>(&m).is_err()),
        _ => (GameMode::Mania, d.strains_for_mode::<Mania>(&m).is_err()),
    };
    rec_check(own, bits, is_err);
}

//@ obl: id=U9.entry.gradual harness=u9_entry_gradual stubs=yes props=C07,C02 tier=quick kind=proof
//@ fns: OsuGradualDifficulty::new, TaikoGradualDifficulty::new, CatchGradualDifficulty::new, ManiaGradualDifficulty::new
//@ bound: as U9.entry.difficulty
//@ clause: each mode's gradual difficulty constructor first calls map.convert_ref(<own mode>, difficulty.get_mods()) exactly once and returns its error unchanged
#[kani::proof]
#[kani::unwind(3)]
#[kani::stub(Beatmap::convert_ref, rec_convert_ref)]
fn u9_entry_gradual() {
    let m = any_empty_map();
    let bits: u32 = kani::any();
    let d = Difficulty::new().mods(bits);
    let which: u8 = kani::any();
    let (own, is_err) = match which % 4 {
        0 => (GameMode::Osu, d.gradual_difficulty_for_mode::<Osu>(&m).is_err()),
        1 => (GameMode::Taiko, d.gradual_difficulty_for_mode::<Taiko>(&m).is_err()),
        2 => (GameMode::Catch, d.gradual_difficulty_for_mode::<Catch>(&m).is_err()),
        _ => (GameMode::Mania, d.gradual_difficulty_for_mode::<Mania>(&m).is_err()),
    };
    rec_check(own, bits, is_err);
}
