//@ unit: setup_catch
//@ target: src/catch/difficulty/mod.rs
//@ assume: call-site contract: BeatmapAttributesBuilder::build is replaced by a stub returning arbitrary attributes; what is proved is that the setup stores them unchanged
use super::*;
use crate::model::beatmap::{BeatmapAttributesBuilder, HitWindows};

static mut BUILT: [u64; 4] = [0; 4];

fn stub_build(_b: &BeatmapAttributesBuilder) -> BeatmapAttributes {
    let (ar, od, cs, hp): (f64, f64, f64, f64) = (kani::any(), kani::any(), kani::any(), kani::any());
    unsafe {
        BUILT = [ar.to_bits(), od.to_bits(), cs.to_bits(), hp.to_bits()];
    }
    BeatmapAttributes { ar, od, cs, hp, clock_rate: 1.0, hit_windows: HitWindows { ar: 0.0, od_great: 0.0, od_ok: None, od_meh: None } }
}

//@ obl: id=U13.setup.catch harness=u13_setup_catch stubs=yes props=C17 tier=quick kind=proof
//@ fns: CatchDifficultySetup::new
//@ bound: loop-free; the builder output is any f64 bit pattern (incl. negative AR); object-free catch map, all legacy mod bits
//@ clause: the AR stored in the catch difficulty attributes is exactly the attribute builder's AR for the same map and settings (no clamping or rounding on the way), and is_convert is copied from the map
#[kani::proof]
#[kani::unwind(3)]
#[kani::stub(BeatmapAttributesBuilder::build, stub_build)]
fn u13_setup_catch() {
    let mut map = Beatmap::default();
    map.mode = GameMode::Catch;
    map.is_convert = kani::any();
    let d = Difficulty::new().mods(kani::any::<u32>());
    let s = CatchDifficultySetup::new(&d, &map);
    unsafe {
        assert!(s.attrs.ar.to_bits() == BUILT[0], "C17 catch attributes carry the builder's AR unchanged");
        assert!(s.map_attrs.cs.to_bits() == BUILT[2], "C17 the setup keeps the builder's CS for the object conversion");
    }
    assert!(s.attrs.is_convert == map.is_convert, "C14 is_convert copied from the map");
    std::mem::forget(map);
}
