//@ unit: mania_stair
//@ target: src/mania/convert/pattern_generator/path_object.rs
//@ assume: bounded stand-in: span count fixed per harness (the stair loop runs span_count+1 times); key count 2..=10, slider x position any f32 in [0, 512], generator state symbolic
use super::*;
use rosu_map::util::Pos;
use crate::model::hit_object::HitObjectKind;

fn stair(span_count: i32) {
    let total_columns: i32 = kani::any();
    kani::assume(total_columns >= 2 && total_columns <= 10);
    let x: f32 = kani::any();
    kani::assume(x >= 0.0 && x <= 512.0);
    let h = HitObject { pos: Pos::new(x, 192.0), start_time: 1000.0, kind: HitObjectKind::Circle };
    let map = Beatmap::default();
    let mut random = Random::new(kani::any());
    let prev = Pattern::default();
    let sounds: [HitSoundType; 0] = [];
    let seg: i32 = kani::any();
    kani::assume(seg > 120 && seg <= 160);
    let mut gen = PathObjectPatternGenerator {
        segment_duration: seg,
        sample: HitSoundType::default(),
        inner: PatternGenerator::new(&h, total_columns, &mut random, &map),
        start_time: 1000,
        end_time: 1000 + seg * span_count,
        span_count,
        prev_pattern: &prev,
        convert_type: PatternType::default(),
        node_sounds: &sounds,
    };
    let pattern = gen.generate_stair(1000);
    assert!(pattern.hit_objects.len() == span_count as usize + 1, "C19 a stair has one note per span boundary");
    let divisor = 512.0 / total_columns as f32;
    let mut i = 0;
    while i < pattern.hit_objects.len() {
        let raw = (pattern.hit_objects[i].pos.x / divisor).floor();
        assert!(raw >= 0.0 && raw < total_columns as f32, "C19 every stair note lies in a column below the key count (raw column, no clamp)");
        i += 1;
    }
    std::mem::forget(pattern);
}

//@ obl: id=U10.stair.s2 harness=u10_stair_s2 props=C19 tier=quick kind=bounded
//@ fns: PathObjectPatternGenerator::generate_stair, PatternGenerator::get_column, PatternGenerator::random_start, Pattern::add_slider_note, column_to_pos
//@ bound: bounded: span count 2 (3 notes); key count 2..=10, x in [0,512], any RNG seed, segment duration in (120,160]
//@ clause: generate_stair places every note in a column 0 <= c < key count (checked on the raw column floor(x/(512/K)), not through the clamping helper), one note per span boundary
#[kani::proof]
#[kani::unwind(12)]
fn u10_stair_s2() {
    stair(2);
}
//@ obl: id=U10.stair.s4 harness=u10_stair_s4 props=C19 tier=quick kind=bounded
//@ fns: PathObjectPatternGenerator::generate_stair
//@ bound: bounded: span count 4 (5 notes); otherwise as U10.stair.s2
//@ clause: as U10.stair.s2
#[kani::proof]
#[kani::unwind(12)]
fn u10_stair_s4() {
    stair(4);
}
//@ obl: id=U10.stair.s9 harness=u10_stair_s9 props=C19 tier=thorough kind=bounded budget=3000
//@ fns: PathObjectPatternGenerator::generate_stair
//@ bound: bounded: span count 9 (10 notes, enough to cross a 10K stage from either side); otherwise as U10.stair.s2
//@ clause: as U10.stair.s2
#[kani::proof]
#[kani::unwind(14)]
fn u10_stair_s9() {
    stair(9);
}
