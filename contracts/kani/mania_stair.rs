//@ unit: mania_stair
//@ target: src/mania/convert/pattern_generator/path_object.rs
//@ assume: bounded stand-in: span count fixed per harness (the stair loop runs span_count+1 times); key count 2..=10, slider x position any f32 in [0, 512], generator state symbolic
use super::*;
use rosu_map::util::Pos;
use crate::model::hit_object::HitObjectKind;

fn stair(span_count: i32) {
    let total_columns: i32 = kani::any();
    kani::assume(total_columns >= 2 && total_columns <= 10);
    let x: f32 = kani::any();
    kani::assume(x >= 0.0 && x <= 512.0);
    let h = HitObject { pos: Pos::new(x, 192.0), start_time: 1000.0, kind: HitObjectKind::Circle };
    let map = Beatmap::default();
    let mut random = Random::new(kani::any());
    let prev = Pattern::default();
    let sounds: [HitSoundType; 0] = [];
    let seg: i32 = kani::any();
    kani::assume(seg > 120 && seg <= 160);
    let mut gen = PathObjectPatternGenerator {
        segment_duration: seg,
        sample: HitSoundType::default(),
        inner: PatternGenerator::new(&h, total_columns, &mut random, &map),
        start_time: 1000,
        end_time: 1000 + seg * span_count,
        span_count,
        prev_pattern: &prev,
        convert_type: PatternType::default(),
        node_sounds: &sounds,
    };
    let pattern = gen.generate_stair(1000);
    assert!(pattern.hit_objects.len() == span_count as usize + 1, "C19 a stair has one note per span boundary");
    let divisor = 512.0 / total_columns as f32;
    let mut i = 0;
    while i < pattern.hit_objects.len() {
        let raw = (pattern.hit_objects[i].pos.x / divisor).floor();
        assert!(raw >= 0.0 && raw < total_columns as f32, "C19 every stair note lies in a column below the key count (raw column, no clamp)");
        i += 1;
    }
    std::mem::forget(pattern);
}

//@ obl: id=U10.stair.s2 harness=u10_stair_s2 props=C19 tier=quick kind=bounded
//@ fns: PathObjectPatternGenerator::generate_stair, PatternGenerator::get_column, PatternGenerator::random_start, Pattern::add_slider_note, column_to_pos
//@ bound: bounded: span count 2 (3 notes); key count 2..=10, x in [0,512], any RNG seed, segment duration in (120,160]
//@ clause: generate_stair places every note in a column 0 <= c < key count (checked on the raw column floor(x/(512/K)), not through the clamping helper), one note per span boundary
#[kani::proof]
#[kani::unwind(12)]
fn u10_stair_s2() {
    stair(2);
}
//@ obl: id=U10.stair.s4 harness=u10_stair_s4 props=C19 tier=quick kind=bounded
//@ fns: PathObjectPatternGenerator::generate_stair
//@ bound: bounded: span count 4 (5 notes); otherwise as U10.stair.s2
//@ clause: as U10.stair.s2
#[kani::proof]
#[kani::unwind(12)]
fn u10_stair_s4() {
    stair(4);
}
//@ obl: id=U10.stair.s9 harness=u10_stair_s9 props=C19 tier=thorough kind=bounded budget=3000
//@ fns: PathObjectPatternGenerator::generate_stair
//@ bound: bounded: span count 9 (10 notes, enough to cross a 10K stage from either side); otherwise as U10.stair.s2
//@ clause: as U10.stair.s2
#[kani::proof]
#[kani::unwind(14)]
fn u10_stair_s9() {
    stair(9);
}

// ---- hold + normal notes: the column search is only entered when a free column exists ------------------------------

/// Contract stub for `find_available_column` (whose real body retries random columns until one is free - a loop
/// without a static bound): checks the callee's precondition "a valid column exists" at the call site and returns
/// an arbitrary valid column.
fn contract_find_available_column<'h>(
    this: &mut PathObjectPatternGenerator<'h>,
    initial_column: u8,
    validation: Option<&dyn Fn(i32) -> bool>,
    patterns: &[&Pattern],
) -> u8
where
    'h: 'h,
{
    let lower = this.inner.random_start();
    let upper = this.inner.total_columns;
    let valid = |c: i32| -> bool {
        if let Some(f) = validation {
            if !f(c) {
                return false;
            }
        }
        let mut k = 0;
        while k < patterns.len() {
            if patterns[k].column_has_obj(c as u8) {
                return false;
            }
            k += 1;
        }
        true
    };
    if valid(i32::from(initial_column)) {
        return initial_column;
    }
    let mut any_valid = false;
    let mut c = lower;
    while c < upper {
        if valid(c) {
            any_valid = true;
        }
        c += 1;
    }
    assert!(any_valid, "C05 find_available_column is only called when a free column exists (its assert!(has_valid_column) cannot fire)");
    let pick: i32 = kani::any();
    kani::assume(lower <= pick && pick < upper && valid(pick));
    pick as u8
}

fn hold_and_normal(span_count: i32) {
    let total_columns: i32 = kani::any();
    kani::assume(total_columns >= 2 && total_columns <= 10);
    let x: f32 = kani::any();
    kani::assume(x >= 0.0 && x <= 512.0);
    let h = HitObject { pos: Pos::new(x, 192.0), start_time: 1000.0, kind: HitObjectKind::Circle };
    let map = Beatmap::default();
    let mut random = Random::new(kani::any());
    let prev = Pattern::default();
    let sounds: [HitSoundType; 3] = [HitSoundType::default(); 3];
    let seg: i32 = kani::any();
    kani::assume(seg > 200 && seg <= 400);
    let mut gen = PathObjectPatternGenerator {
        segment_duration: seg,
        sample: HitSoundType::default(),
        inner: PatternGenerator::new(&h, total_columns, &mut random, &map),
        start_time: 1000,
        end_time: 1000 + seg * span_count,
        span_count,
        prev_pattern: &prev,
        convert_type: PatternType::default(),
        node_sounds: &sounds,
    };
    let conversion_diff: f64 = kani::any();
    kani::assume(conversion_diff >= 0.0 && conversion_diff <= 12.0);
    let pattern = gen.generate_hold_and_normal_notes(1000, conversion_diff);
    let divisor = 512.0 / total_columns as f32;
    let mut i = 0;
    while i < pattern.hit_objects.len() {
        let raw = (pattern.hit_objects[i].pos.x / divisor).floor();
        assert!(raw >= 0.0 && raw < total_columns as f32, "C19 every generated note lies in a column below the key count");
        i += 1;
    }
    std::mem::forget(pattern);
}

//@ obl: id=U10.hold_and_normal.s1 harness=u10_hold_and_normal_s1 stubs=yes props=C05,C19 tier=thorough kind=bounded budget=1800
//@ fns: PathObjectPatternGenerator::generate_hold_and_normal_notes (call sites of find_available_column), PatternGenerator::get_random_note_count
//@ bound: bounded: span count 1 (two rows); key count 2..=10, x in [0,512], any RNG seed, conversion difficulty in [0,12]; find_available_column replaced by a contract stub that asserts its precondition
//@ clause: in generate_hold_and_normal_notes the per-row note count is clamped so that a free column (other than the hold note's) always exists when find_available_column is called - its assert!(has_valid_column) cannot fire, so a 2K..10K conversion of a repeat slider cannot panic there; every generated note is in a column below the key count
#[kani::proof]
#[kani::unwind(14)]
#[kani::stub(PathObjectPatternGenerator::find_available_column, contract_find_available_column)]
fn u10_hold_and_normal_s1() {
    hold_and_normal(1);
}

//@ obl: id=U10.slider_note.duration harness=u10_slider_note_duration props=C19 tier=quick kind=proof
//@ fns: Pattern::new_slider_note, Pattern::add_slider_note
//@ bound: loop-free (one push); all i32 start <= end, key counts 1..=10, every column below the key count
//@ clause: the note a path-object generator emits for [start, end] starts at `start`, is a circle when start == end and otherwise a hold note of duration end - start (never negative), at the x position of its column - identically for new_slider_note and add_slider_note
#[kani::proof]
#[kani::unwind(4)]
fn u10_slider_note_duration() {
    let total_columns: i32 = kani::any();
    kani::assume(total_columns >= 1 && total_columns <= 10);
    let column: u8 = kani::any();
    kani::assume((column as i32) < total_columns);
    let h = HitObject { pos: Pos::new(100.0, 192.0), start_time: 1000.0, kind: HitObjectKind::Circle };
    let map = Beatmap::default();
    let mut random = Random::new(1);
    let prev = Pattern::default();
    let sounds: [HitSoundType; 0] = [];
    let gen = PathObjectPatternGenerator {
        segment_duration: 100,
        sample: HitSoundType::default(),
        inner: PatternGenerator::new(&h, total_columns, &mut random, &map),
        start_time: 0,
        end_time: 0,
        span_count: 1,
        prev_pattern: &prev,
        convert_type: PatternType::default(),
        node_sounds: &sounds,
    };
    let (start, end): (i32, i32) = (kani::any(), kani::any());
    kani::assume(start <= end);
    let a = Pattern::new_slider_note(&gen, column, start, end);
    let mut b = Pattern::default();
    b.add_slider_note(&gen, column, start, end);
    let mut k = 0;
    while k < 2 {
        let obj = if k == 0 { &a.hit_objects[0] } else { &b.hit_objects[0] };
        assert!(obj.start_time == f64::from(start), "C19 generated note starts at the requested time");
        match obj.kind {
            HitObjectKind::Circle => assert!(start == end, "C19 zero-length notes are circles"),
            HitObjectKind::Hold(ref hold) => {
                assert!(start < end && hold.duration == f64::from(end) - f64::from(start), "C19 hold duration is end - start");
                assert!(hold.duration >= 0.0, "C19 generated hold notes have non-negative duration");
            }
            _ => assert!(false, "C19 generators emit circles and hold notes only"),
        }
        k += 1;
    }
    assert!(a.hit_objects.len() == 1 && b.hit_objects.len() == 1, "C19 exactly one note is emitted");
    assert!(a.column_has_obj(column) && b.column_has_obj(column), "C19 the note's column is marked as occupied");
    std::mem::forget(a);
    std::mem::forget(b);
}
