//@ unit: finite
//@ target: src/osu/performance/mod.rs
//@ assume: A-BOUND: hit result counts <= 2^20 each (check_suspicion rejects maps with more than 500000 objects)
//@ assume: finiteness / sign of star ratings and pp in general is NOT covered: powf, ln, exp are over-approximated or unsupported by CBMC and absent in Verus
use super::*;
use crate::catch::CatchScoreState;
use crate::mania::ManiaScoreState;
use crate::taiko::TaikoScoreState;

const CAP: u32 = 1 << 20;

fn cnt() -> u32 {
    let v: u32 = kani::any();
    kani::assume(v <= CAP);
    v
}

fn good(a: f64) -> bool {
    !a.is_nan() && a.is_finite() && a >= 0.0
}

fn any_origin() -> OsuScoreOrigin {
    let k: u8 = kani::any();
    match k % 3 {
        0 => OsuScoreOrigin::Stable,
        1 => OsuScoreOrigin::WithSliderAcc { max_large_ticks: cnt(), max_slider_ends: cnt() },
        _ => OsuScoreOrigin::WithoutSliderAcc { max_large_ticks: cnt(), max_small_ticks: cnt() },
    }
}

//@ obl: id=U7.accuracy.osu harness=u7_accuracy_osu props=C09 tier=quick kind=proof
//@ fns: OsuScoreState::accuracy, OsuScoreState::total_hits (the generator's NoComboState::accuracy is under its own function contract: U7.osu.nocombo_accuracy.contract)
//@ bound: loop-free; all counts <= 2^20 incl. all-zero; all three score origins with symbolic maxima
//@ clause: accuracy is never NaN, finite and >= 0 - every zero denominator is guarded (all-zero state gives 0); no u32 overflow
#[kani::proof]
fn u7_accuracy_osu() {
    let s = OsuScoreState {
        max_combo: kani::any(),
        large_tick_hits: kani::any(),
        small_tick_hits: kani::any(),
        slider_end_hits: kani::any(),
        n300: cnt(),
        n100: cnt(),
        n50: cnt(),
        misses: cnt(),
    };
    let origin = any_origin();
    assert!(good(s.accuracy(origin)), "C09 osu accuracy is finite and non-negative");
    if s.total_hits() == 0 {
        if let OsuScoreOrigin::Stable = origin {
            assert!(s.accuracy(origin) == 0.0, "C09 no hits: accuracy 0");
        }
    }
}

//@ obl: id=U7.accuracy.others harness=u7_accuracy_taiko_catch_mania props=C09 tier=quick kind=proof
//@ fns: TaikoScoreState::accuracy, CatchScoreState::accuracy, ManiaScoreState::accuracy
//@ bound: loop-free; all counts <= 2^20 incl. all-zero
//@ clause: taiko, catch and mania accuracies are never NaN, finite, >= 0; the all-zero state gives exactly 0 (zero denominators guarded); no u32 overflow
#[kani::proof]
fn u7_accuracy_taiko_catch_mania() {
    let t = TaikoScoreState { max_combo: kani::any(), n300: cnt(), n100: cnt(), misses: cnt() };
    assert!(good(t.accuracy()), "C09 taiko accuracy is finite and non-negative");
    if t.total_hits() == 0 {
        assert!(t.accuracy() == 0.0, "C09 no hits: accuracy 0");
    }
    let c = CatchScoreState {
        max_combo: kani::any(),
        fruits: cnt(),
        droplets: cnt(),
        tiny_droplets: cnt(),
        tiny_droplet_misses: cnt(),
        misses: cnt(),
    };
    assert!(good(c.accuracy()), "C09 catch accuracy is finite and non-negative");
    if c.total_hits() == 0 {
        assert!(c.accuracy() == 0.0, "C09 no hits: accuracy 0");
    }
    let m = ManiaScoreState { n320: cnt(), n300: cnt(), n200: cnt(), n100: cnt(), n50: cnt(), misses: cnt() };
    let classic: bool = kani::any();
    assert!(good(m.accuracy(classic)), "C09 mania accuracy is finite and non-negative");
    if m.total_hits() == 0 {
        assert!(m.accuracy(classic) == 0.0, "C09 no hits: accuracy 0");
    }
}

//@ obl: id=U7.accuracy.le_one harness=u7_accuracy_le_one props=C09 tier=thorough kind=bounded budget=1800
//@ fns: TaikoScoreState::accuracy, CatchScoreState::accuracy, ManiaScoreState::accuracy, OsuScoreState::accuracy (stable)
//@ bound: bounded: counts <= 63 (the full-range claim needs the solver to reason about the f64 divider and does not finish)
//@ clause: accuracies lie in [0, 1]
#[kani::proof]
fn u7_accuracy_le_one() {
    fn small() -> u32 {
        let v: u32 = kani::any();
        kani::assume(v <= 63);
        v
    }
    let t = TaikoScoreState { max_combo: 0, n300: small(), n100: small(), misses: small() };
    assert!(t.accuracy() <= 1.0, "C09 taiko accuracy <= 1");
    let c = CatchScoreState { max_combo: 0, fruits: small(), droplets: small(), tiny_droplets: small(), tiny_droplet_misses: small(), misses: small() };
    assert!(c.accuracy() <= 1.0, "C09 catch accuracy <= 1");
    let m = ManiaScoreState { n320: small(), n300: small(), n200: small(), n100: small(), n50: small(), misses: small() };
    assert!(m.accuracy(kani::any()) <= 1.0, "C09 mania accuracy <= 1");
    let o = OsuScoreState { max_combo: 0, large_tick_hits: 0, small_tick_hits: 0, slider_end_hits: 0, n300: small(), n100: small(), n50: small(), misses: small() };
    assert!(o.accuracy(OsuScoreOrigin::Stable) <= 1.0, "C09 osu accuracy <= 1");
}

//@ obl: id=U7.zero_hits.osu harness=u7_zero_hits_osu props=C09 tier=quick kind=proof
//@ fns: OsuPerformanceCalculator::calculate, OsuPerformanceCalculator::new
//@ bound: loop-free (early return); every f64 bit pattern (incl. NaN / inf) for every float attribute, effective miss count and accuracy; all legacy mod bits
//@ clause: a play with zero hits is worth exactly zero pp: pp and all pp components are 0 and the difficulty attributes are passed through, whatever the attributes are
#[kani::proof]
#[kani::unwind(3)]
fn u7_zero_hits_osu() {
    let mut a = OsuDifficultyAttributes::default();
    a.aim = kani::any();
    a.speed = kani::any();
    a.flashlight = kani::any();
    a.slider_factor = kani::any();
    a.speed_note_count = kani::any();
    a.stars = kani::any();
    a.great_hit_window = kani::any();
    a.n_circles = kani::any();
    a.n_sliders = kani::any();
    a.max_combo = kani::any();
    let stars_bits = a.stars.to_bits();
    let bits: u32 = kani::any();
    let mods: GameMods = bits.into();
    let state = OsuScoreState { max_combo: kani::any(), large_tick_hits: kani::any(), small_tick_hits: kani::any(), slider_end_hits: kani::any(), n300: 0, n100: 0, n50: 0, misses: 0 };
    let r = OsuPerformanceCalculator::new(a, &mods, kani::any(), state, kani::any(), kani::any()).calculate();
    assert!(r.pp == 0.0 && r.pp_acc == 0.0 && r.pp_aim == 0.0 && r.pp_speed == 0.0 && r.pp_flashlight == 0.0, "C09 zero hits are worth zero pp");
    assert!(r.effective_miss_count == 0.0 && r.speed_deviation.is_none(), "C09 zero hits: no derived statistics");
    assert!(r.difficulty.stars.to_bits() == stars_bits, "C09 difficulty attributes passed through");
}
