//@ unit: queue
//@ target: src/util/limited_queue.rs
use super::*;

const N: usize = 7;

fn any_queue() -> LimitedQueue<f64, N> {
    // representation invariant as established by `new` and preserved by `push`
    let q = LimitedQueue::<f64, N> { queue: kani::any(), end: kani::any(), len: kani::any() };
    kani::assume(q.end < N && q.len <= N);
    kani::assume(if q.len == 0 { q.end == N - 1 } else if q.len < N { q.end + 1 == q.len } else { true });
    q
}

//@ obl: id=U6.queue.ops harness=u6_queue_ops props=C05 tier=quick kind=proof
//@ fns: LimitedQueue::push, LimitedQueue::len, LimitedQueue::is_full, LimitedQueue::as_slices, <LimitedQueue as Index>::index, LimitedQueue::new
//@ bound: loop-free; any state of the representation invariant (end < 7, len <= 7, len < 7 ==> end+1 == len (or the empty state)), all f64 contents
//@ clause: `new` establishes and `push` preserves the invariant; len' = min(len+1, 7); the pushed element is the newest (index len'-1) and the previously i-th oldest elements shift by one once full; as_slices() together hold exactly len elements in age order; no index is out of bounds (mania density window)
#[kani::proof]
#[kani::unwind(9)]
fn u6_queue_ops() {
    let fresh = LimitedQueue::<f64, N>::new();
    assert!(fresh.end == N - 1 && fresh.len == 0, "C05 new() is the empty state");
    let mut q = any_queue();
    let old = q.clone();
    let x: f64 = kani::any();
    q.push(x);
    assert!(q.end < N && q.len <= N && (q.len == N || q.end + 1 == q.len), "C05 push preserves the representation invariant");
    assert!(q.len() == if old.len < N { old.len + 1 } else { N }, "C05 len grows by one up to the capacity");
    assert!(q.is_full() == (q.len == N), "C05 is_full iff len == capacity");
    assert!(q[q.len - 1].to_bits() == x.to_bits(), "C05 the pushed element is the newest");
    let i: usize = kani::any();
    kani::assume(i < q.len - 1);
    let shift = usize::from(old.len == N);
    assert!(q[i].to_bits() == old[i + shift].to_bits(), "C05 older elements keep their order (the oldest is dropped once full)");
    let (a, b) = q.as_slices();
    assert!(a.len() + b.len() == q.len, "C05 as_slices covers exactly len elements");
    let j: usize = kani::any();
    kani::assume(j < q.len);
    let from_slices = if j < a.len() { a[j] } else { b[j - a.len()] };
    assert!(from_slices.to_bits() == q[j].to_bits(), "C05 as_slices lists the elements in age order");
}
