//@ unit: difficulty_api
//@ target: src/any/difficulty/mod.rs
//@ assume: mods are GameMods::Legacy(bits) with all 2^32 bit patterns
// (only crate-visible API, no private fields: stays compilable when the representation of Difficulty changes)
use super::*;

fn any_difficulty_api() -> Difficulty {
    let bits: u32 = kani::any();
    let mut d = Difficulty::new().mods(bits);
    if kani::any() {
        d = d.clock_rate(kani::any());
    }
    if kani::any() {
        d = d.lazer(kani::any());
    }
    if kani::any() {
        d = d.hardrock_offsets(kani::any());
    }
    d
}

//@ obl: id=U11.difficulty.passed_objects harness=u11_difficulty_passed_objects props=C14,C18,C08 tier=quick kind=proof
//@ fns: Difficulty::passed_objects, Difficulty::get_passed_objects
//@ bound: loop-free; all u32
//@ clause: get_passed_objects() == n for every n set (including 0) and usize::MAX when unset; the other getters fall back as documented (lazer default true; hardrock_offsets default = mods HR; clock rate default = mods clock rate)
#[kani::proof]
fn u11_difficulty_passed_objects() {
    let n: u32 = kani::any();
    assert!(Difficulty::new().passed_objects(n).get_passed_objects() == n as usize, "C14 passed_objects(n) limits to exactly n");
    assert!(Difficulty::new().get_passed_objects() == usize::MAX, "C14 no limit by default");
    let d = any_difficulty_api();
    let n2: u32 = kani::any();
    assert!(d.clone().passed_objects(n2).get_passed_objects() == n2 as usize, "C14 passed_objects(n) on any Difficulty");
    assert!(Difficulty::new().get_lazer() && Difficulty::new().lazer(false).get_lazer() == false, "C18 lazer default true, explicit value wins");
    let bits: u32 = kani::any();
    let e = Difficulty::new().mods(bits);
    assert!(e.get_hardrock_offsets() == e.get_mods().hr(), "C08 hardrock offsets default to the HR mod");
    let hro: bool = kani::any();
    assert!(e.clone().hardrock_offsets(hro).get_hardrock_offsets() == hro, "C18 explicit hardrock offsets win");
    assert!(e.get_clock_rate().to_bits() == e.get_mods().clock_rate().to_bits(), "C08 clock rate falls back to the mods' rate");
}
