//@ unit: mania_object
//@ target: src/mania/object.rs
//@ assume: slider arm: `BorrowedCurve::dist` (rosu-map's curve length, float geometry) is replaced by a stub handing out a symbolic distance in [0, 2^20]; the curve itself is built by the real code from an empty control-point list. The map has no timing / difficulty points (default beat length and slider velocity); slider multiplier symbolic in the decoder's clamp range [0.4, 3.6].
use super::*;
use crate::model::hit_object::{HitObject, HitObjectKind, HoldNote, Slider, Spinner};
use rosu_map::util::Pos;

static mut DIST: f64 = 0.0;

fn stub_dist<'bufs>(_c: &rosu_map::section::hit_objects::BorrowedCurve<'bufs>) -> f64
where
    'bufs: 'bufs,
{
    unsafe { DIST }
}

fn any_time() -> f64 {
    let t: f64 = kani::any();
    kani::assume(t >= -1.0e9 && t <= 1.0e9);
    t
}

//@ obl: id=U11.mania.object.circle harness=u11_mania_object_circle props=C14 tier=quick kind=proof
//@ fns: ManiaObject::new (circle arm), ObjectParams::new
//@ bound: loop-free; every start time in [-1e9, 1e9], counters below 2^30
//@ clause: a circle adds 1 to max_combo and nothing to the hold-note count, start == end == the hit object's start
#[kani::proof]
#[kani::unwind(3)]
fn u11_mania_object_circle() {
    let map = Beatmap::default();
    let mut params = ObjectParams::new(&map);
    let (c0, h0): (u32, u32) = (kani::any(), kani::any());
    kani::assume(c0 < (1 << 30) && h0 < (1 << 30));
    params.max_combo = c0;
    params.n_hold_notes = h0;
    let start = any_time();
    let h = HitObject { pos: Pos::new(100.0, 192.0), start_time: start, kind: HitObjectKind::Circle };
    let o = ManiaObject::new(&h, 4.0, &mut params);
    assert!(params.max_combo == c0 + 1, "C14 a circle is worth one combo");
    assert!(params.n_hold_notes == h0, "C14 a circle is not a hold note");
    assert!(o.start_time == start && o.end_time == start, "C14 a circle ends when it starts");
    std::mem::forget(h);
    std::mem::forget(params);
    std::mem::forget(map);
}

//@ obl: id=U11.mania.object.hold harness=u11_mania_object_hold props=C14 tier=quick kind=proof
//@ fns: ManiaObject::new (spinner / hold-note arm)
//@ bound: loop-free; every start time in [-1e9, 1e9], every duration in [0, 2^31], counters below 2^30
//@ clause: a spinner / hold note adds exactly 1 to the hold-note count and at least 1 to max_combo, end == start + duration >= start (the value of the duration term: U11.mania.object.hold_grid)
#[kani::proof]
#[kani::unwind(3)]
fn u11_mania_object_hold() {
    hold_any(true, false);
    hold_any(false, false);
}

fn hold_any(spinner: bool, term: bool) {
    let map = Beatmap::default();
    let mut params = ObjectParams::new(&map);
    let (c0, h0): (u32, u32) = (kani::any(), kani::any());
    kani::assume(c0 < (1 << 30) && h0 < (1 << 30));
    params.max_combo = c0;
    params.n_hold_notes = h0;
    let start = any_time();
    let dur: f64 = kani::any();
    kani::assume(dur >= 0.0 && dur <= 2147483648.0);
    let kind = if spinner { HitObjectKind::Spinner(Spinner { duration: dur }) } else { HitObjectKind::Hold(HoldNote { duration: dur }) };
    let h = HitObject { pos: Pos::new(100.0, 192.0), start_time: start, kind };
    let o = ManiaObject::new(&h, 4.0, &mut params);
    assert!(params.n_hold_notes == h0 + 1, "C14 every spinner / hold note is counted as one hold note");
    assert!(params.max_combo >= c0 + 1, "C14 a hold note is worth at least one combo");
    if term {
        let k = params.max_combo - c0 - 1;
        assert!(f64::from(k) * 100.0 <= dur + 1.0e-3 && dur - 1.0e-3 < f64::from(k + 1) * 100.0, "C14 hold combo: 1 + floor(duration / 100)");
    }
    assert!(o.start_time == start && o.end_time == start + dur && o.end_time >= start, "C14 a hold note ends duration after its start");
    kani::cover!(dur > 100.0);
    std::mem::forget(h);
    std::mem::forget(params);
    std::mem::forget(map);
}

//@ obl: id=U11.mania.object.hold_term harness=u11_mania_object_hold_term props=C14 tier=thorough kind=proof budget=1800
//@ fns: ManiaObject::new (spinner / hold-note arm)
//@ bound: loop-free; every duration in [0, 2^31] (about 6.5 min of CBMC: an f64 division related to an integer)
//@ clause: a spinner / hold note adds 1 + k to max_combo where k*100 <= duration < (k+1)*100 (up to 1e-3 of rounding in the division)
#[kani::proof]
#[kani::unwind(3)]
fn u11_mania_object_hold_term() {
    hold_any(true, true);
    hold_any(false, true);
}

fn hold_at(spinner: bool, dur: f64, expect: u32) {
    let map = Beatmap::default();
    let mut params = ObjectParams::new(&map);
    let c0: u32 = kani::any();
    kani::assume(c0 < (1 << 30));
    params.max_combo = c0;
    // the kind is concrete per call: a symbolic discriminant makes CBMC's symbolic execution walk the slider arm too
    let kind = if spinner { HitObjectKind::Spinner(Spinner { duration: dur }) } else { HitObjectKind::Hold(HoldNote { duration: dur }) };
    let h = HitObject { pos: Pos::new(100.0, 192.0), start_time: 1000.0, kind };
    let o = ManiaObject::new(&h, 4.0, &mut params);
    assert!(params.max_combo == c0 + 1 + expect, "C14 hold combo: 1 + floor(duration / 100)");
    assert!(params.n_hold_notes == 1, "C14 one hold note");
    std::mem::forget(o);
    std::mem::forget(h);
    std::mem::forget(params);
    std::mem::forget(map);
}

//@ obl: id=U11.mania.object.hold_grid harness=u11_mania_object_hold_grid props=C14 tier=quick kind=bounded
//@ fns: ManiaObject::new (spinner / hold-note arm)
//@ bound: bounded: durations 0, 99.5, 100, 250, 12345.678 ms (a symbolic duration relates through an f64 division to an integer; CBMC does not finish that in 20 min); counter symbolic
//@ clause: the combo of a hold note is 1 + floor(duration / 100)
#[kani::proof]
#[kani::unwind(3)]
fn u11_mania_object_hold_grid() {
    hold_at(true, 0.0, 0);
    hold_at(false, 99.5, 0);
    hold_at(true, 100.0, 1);
    hold_at(false, 250.0, 2);
    hold_at(true, 12345.678, 123);
    hold_at(false, 12345.678, 123);
}

//@ obl: id=U11.mania.object.slider harness=u11_mania_object_slider stubs=yes props=C14 tier=quick kind=proof
//@ fns: ManiaObject::new (slider arm), Slider::curve, Slider::span_count
//@ bound: symbolic curve length in [0, 2^20] (stub), 1..=64 spans, slider multiplier in [0.4, 3.6], default timing; the curve object is built from an empty control-point list (unwind 3 certifies its loops)
//@ clause: a slider of a mania map is a hold note: exactly 1 is added to the hold-note count, at least 1 to max_combo, the object ends at or after its start; a slider of length zero is worth exactly 1
#[kani::proof]
#[kani::unwind(3)]
#[kani::stub(rosu_map::section::hit_objects::BorrowedCurve::dist, stub_dist)]
fn u11_mania_object_slider() {
    let mut map = Beatmap::default();
    let sm: f64 = kani::any();
    kani::assume(sm >= 0.4 && sm <= 3.6);
    map.slider_multiplier = sm;
    let mut params = ObjectParams::new(&map);
    let (c0, h0): (u32, u32) = (kani::any(), kani::any());
    kani::assume(c0 < (1 << 30) && h0 < (1 << 30));
    params.max_combo = c0;
    params.n_hold_notes = h0;
    let start = any_time();
    let dist: f64 = kani::any();
    kani::assume(dist >= 0.0 && dist <= 1048576.0);
    unsafe { DIST = dist };
    let repeats: usize = kani::any();
    kani::assume(repeats < 64);
    let slider = Slider { expected_dist: None, repeats, control_points: Vec::new().into_boxed_slice(), node_sounds: Vec::new().into_boxed_slice() };
    let h = HitObject { pos: Pos::new(100.0, 192.0), start_time: start, kind: HitObjectKind::Slider(slider) };
    let o = ManiaObject::new(&h, 4.0, &mut params);
    assert!(params.n_hold_notes == h0 + 1, "C14 a slider is counted as one hold note");
    assert!(params.max_combo >= c0 + 1, "C14 a slider is worth at least one combo");
    assert!(o.start_time == start && o.end_time >= start, "C14 a slider ends at or after its start");
    if dist == 0.0 {
        assert!(o.end_time == start && params.max_combo == c0 + 1, "C14 a slider without length counts like a circle that is held");
    }
    kani::cover!(dist > 100.0 && params.max_combo > c0 + 1);
    std::mem::forget(params);
    std::mem::forget(h);
    std::mem::forget(map);
}
