//@ unit: genstate_osu
//@ target: src/osu/performance/mod.rs
//@ assume: A-BOUND: attribute counts (n_circles, n_sliders, n_spinners, n_large_ticks, max_combo) <= 2^20 each (check_suspicion rejects maps with > 500000 objects); provided hit results / combo / misses / passed_objects range over all of u32
//@ assume: mods are GameMods::Legacy(bits) with all 2^32 bit patterns; lazer GameMods containers (BTreeMap) are not explored
//@ attr: anchor=`fn accuracy(&self, origin: OsuScoreOrigin) -> f64 {` insert=`#[cfg_attr(kani, kani::ensures(|r: &f64| !r.is_nan() && *r >= 0.0 && *r <= 4294967296.0))]`
//@ attr: anchor=`fn accuracy(&self, origin: OsuScoreOrigin) -> f64 {` insert=`#[cfg_attr(kani, kani::requires(self.n300 as u64 + self.n100 as u64 + self.n50 as u64 + self.misses as u64 <= 3 << 20))]`
use super::*;
use crate::any::HitResultPriority;

const CAP: u32 = 1 << 20;

fn any_attrs() -> OsuDifficultyAttributes {
    let mut a = OsuDifficultyAttributes::default();
    a.n_circles = kani::any();
    a.n_sliders = kani::any();
    a.n_spinners = kani::any();
    a.n_large_ticks = kani::any();
    a.max_combo = kani::any();
    kani::assume(a.n_circles <= CAP && a.n_sliders <= CAP && a.n_spinners <= CAP);
    kani::assume(a.n_large_ticks <= CAP && a.max_combo <= CAP);
    a
}

fn any_opt() -> Option<u32> {
    if kani::any() {
        Some(kani::any())
    } else {
        None
    }
}

fn any_difficulty() -> Difficulty {
    let bits: u32 = kani::any();
    let mut d = Difficulty::new().mods(bits);
    if kani::any() {
        d = d.passed_objects(kani::any());
    }
    if kani::any() {
        d = d.lazer(kani::any());
    }
    d
}

fn any_builder(attrs: &OsuDifficultyAttributes, acc: Option<f64>) -> OsuPerformance<'static> {
    OsuPerformance {
        map_or_attrs: MapOrAttrs::Attrs(attrs.clone()),
        difficulty: any_difficulty(),
        acc,
        combo: any_opt(),
        large_tick_hits: any_opt(),
        small_tick_hits: any_opt(),
        slider_end_hits: any_opt(),
        n300: any_opt(),
        n100: any_opt(),
        n50: any_opt(),
        misses: any_opt(),
        hitresult_priority: if kani::any() {
            HitResultPriority::BestCase
        } else {
            HitResultPriority::WorstCase
        },
    }
}

/// The C12 postcondition of `OsuPerformance::generate_state`, stated over the builder before the call (`pre`),
/// the attributes, the returned state and the builder after the call.
fn post(pre: &OsuPerformance<'_>, a: &OsuDifficultyAttributes, s: &OsuScoreState, after: &OsuPerformance<'_>) {
    let passed = pre.difficulty.get_passed_objects();
    let n = if (a.n_objects() as usize) < passed { a.n_objects() } else { passed as u32 };
    // (1) never more misses than objects
    assert!(s.misses <= n, "C12.1 misses <= objects");
    if let Some(m) = pre.misses {
        assert!(s.misses == cmp::min(m, n), "C12.1 provided misses clamped to objects");
    } else {
        assert!(s.misses == 0, "C12.1 misses default 0");
    }
    let room = n - s.misses;
    // (2) provided results that fit are kept (never lowered; unchanged unless everything was provided and
    //     the remainder has to go somewhere)
    let all_given = pre.n300.is_some() && pre.n100.is_some() && pre.n50.is_some();
    if pre.acc.is_none() {
        if let Some(r) = pre.n300 {
            if r <= room {
                assert!(if all_given { s.n300 >= r } else { s.n300 == r }, "C12.2 provided n300 kept");
            }
        }
        if let Some(r) = pre.n100 {
            if r <= room {
                assert!(s.n100 == r, "C12.2 provided n100 kept");
            }
        }
        if let Some(r) = pre.n50 {
            if r <= room {
                assert!(if all_given { s.n50 >= r } else { s.n50 == r }, "C12.2 provided n50 kept");
            }
        }
    }
    // (3) results add up to the number of (passed) objects whenever the provided ones do not exceed it
    let provided: u64 = pre.n300.unwrap_or(0) as u64
        + pre.n100.unwrap_or(0) as u64
        + pre.n50.unwrap_or(0) as u64
        + pre.misses.unwrap_or(0) as u64;
    if provided <= n as u64 {
        assert!(s.n300 + s.n100 + s.n50 + s.misses == n, "C12.3 hit results add up to objects");
    }
    assert!(s.n300 <= n && s.n100 <= n && s.n50 <= n, "C12.3 each result <= objects");
    // (4) combo never above the achievable one
    assert!(s.max_combo <= a.max_combo.saturating_sub(s.misses), "C12.4 combo <= max_combo - misses");
    if let Some(c) = pre.combo {
        if c <= a.max_combo.saturating_sub(s.misses) {
            assert!(s.max_combo == c, "C12.2 provided combo kept");
        }
    }
    // slider results: bounded by what the map has, provided values that fit are kept
    let lazer = pre.difficulty.get_lazer();
    let classic = pre.difficulty.get_mods().no_slider_head_acc(lazer);
    if !lazer {
        assert!(s.slider_end_hits == 0 && s.large_tick_hits == 0 && s.small_tick_hits == 0, "C12.s stable has no slider results");
    } else if !classic {
        assert!(s.slider_end_hits <= a.n_sliders && s.large_tick_hits <= a.n_large_ticks && s.small_tick_hits == 0, "C12.s slider results bounded");
        if let Some(x) = pre.slider_end_hits {
            assert!(s.slider_end_hits == cmp::min(x, a.n_sliders), "C12.2 provided slider ends kept");
        }
        if let Some(x) = pre.large_tick_hits {
            assert!(s.large_tick_hits == cmp::min(x, a.n_large_ticks), "C12.2 provided large ticks kept");
        }
    } else {
        assert!(s.small_tick_hits <= a.n_sliders && s.large_tick_hits <= a.n_sliders + a.n_large_ticks && s.slider_end_hits == 0, "C12.s classic slider results bounded");
        if let Some(x) = pre.small_tick_hits {
            assert!(s.small_tick_hits == cmp::min(x, a.n_sliders), "C12.2 provided small ticks kept");
        }
    }
    // (6) calculate() uses exactly this state: after generate_state every optional field holds the generated
    //     value and the attributes are kept, so the generate_state() call at the top of calculate() returns it again
    assert!(after.combo == Some(s.max_combo) && after.misses == Some(s.misses), "C12.6 builder stores generated combo/misses");
    assert!(after.n300 == Some(s.n300) && after.n100 == Some(s.n100) && after.n50 == Some(s.n50), "C12.6 builder stores generated results");
    assert!(
        after.slider_end_hits == Some(s.slider_end_hits)
            && after.large_tick_hits == Some(s.large_tick_hits)
            && after.small_tick_hits == Some(s.small_tick_hits),
        "C12.6 builder stores generated slider results"
    );
    assert!(matches!(after.map_or_attrs, MapOrAttrs::Attrs(_)), "C12.6 attributes kept");
    assert!(after.hitresult_priority == pre.hitresult_priority && after.acc == pre.acc, "C12.6 frame: priority/acc untouched");
}

//@ obl: id=U7.osu.genstate.noacc harness=u7_osu_genstate_noacc props=C12,C05 tier=quick kind=proof
//@ fns: OsuPerformance::generate_state, OsuDifficultyAttributes::n_objects, Difficulty::get_passed_objects, Difficulty::get_lazer, GameMods::no_slider_head_acc
//@ bound: loop-free on this path; every u32 value of the 8 optional fields, passed_objects, mods bits; attribute counts <= 2^20
//@ clause: osu generate_state without accuracy: (1) misses' = min(misses, N) <= N=min(passed, n_objects); (2) provided n300/n100/n50/combo/slider results that fit are kept; (3) sum provided <= N ==> n300'+n100'+n50'+misses' == N; (4) combo' <= max_combo - misses'; (6) builder afterwards holds Some(generated value) in every field and keeps the attributes; no arithmetic overflow, no panic
#[kani::proof]
fn u7_osu_genstate_noacc() {
    let a = any_attrs();
    let mut b = any_builder(&a, None);
    let pre = b.clone();
    kani::cover!(pre.n300.is_some() && pre.misses.is_some() && pre.difficulty.get_lazer());
    match b.generate_state() {
        Ok(s) => post(&pre, &a, &s, &b),
        Err(_) => assert!(false, "C12 generate_state on attributes cannot fail"),
    }
}

//@ obl: id=U7.osu.genstate.idem harness=u7_osu_genstate_idem props=C12 tier=quick kind=proof
//@ fns: OsuPerformance::generate_state
//@ bound: loop-free; same domain as U7.osu.genstate.noacc
//@ clause: (5) idempotence: a second generate_state() returns the same state and leaves the builder unchanged
#[kani::proof]
fn u7_osu_genstate_idem() {
    let a = any_attrs();
    let mut b = any_builder(&a, None);
    let s1 = match b.generate_state() {
        Ok(s) => s,
        Err(_) => return,
    };
    let mid = b.clone();
    let s2 = match b.generate_state() {
        Ok(s) => s,
        Err(_) => {
            assert!(false, "C12.5 second generate_state cannot fail");
            return;
        }
    };
    assert!(s1 == s2, "C12.5 second generate_state returns the same state");
    assert!(b == mid, "C12.5 second generate_state leaves the builder unchanged");
}

// ---- accuracy arms: the accuracy helper is under its own function contract and used modularly (stub_verified) -------

fn any_origin() -> OsuScoreOrigin {
    let k: u8 = kani::any();
    let (a, b): (u32, u32) = (kani::any(), kani::any());
    kani::assume(a <= 2 * CAP && b <= 2 * CAP);
    match k % 3 {
        0 => OsuScoreOrigin::Stable,
        1 => OsuScoreOrigin::WithSliderAcc { max_large_ticks: a, max_slider_ends: b },
        _ => OsuScoreOrigin::WithoutSliderAcc { max_large_ticks: a, max_small_ticks: b },
    }
}

//@ obl: id=U7.osu.nocombo_accuracy.contract harness=u7_osu_nocombo_accuracy_contract props=C12,C09 tier=quick kind=proof
//@ fns: NoComboState::accuracy
//@ bound: loop-free; n300+n100+n50+misses <= 3*2^20, slider fields any u32, all three origins with maxima <= 2^21
//@ clause: function contract of the accuracy helper used by the search arms: requires n300+n100+n50+misses <= 3*2^20 (the most a map within A-BOUND has); ensures the result is not NaN, >= 0 and <= 2^32 (so that every candidate's distance is below f64::MAX and the search always selects one; the tight bound <= 1 does not finish for large counts)
#[kani::proof_for_contract(NoComboState::accuracy)]
fn u7_osu_nocombo_accuracy_contract() {
    let s = NoComboState {
        n300: kani::any(),
        n100: kani::any(),
        n50: kani::any(),
        misses: kani::any(),
        large_tick_hits: kani::any(),
        small_tick_hits: kani::any(),
        slider_end_hits: kani::any(),
    };
    let _ = s.accuracy(any_origin());
}

fn small_attrs(cap: u32) -> OsuDifficultyAttributes {
    let a = any_attrs();
    kani::assume(a.n_circles <= cap && a.n_sliders <= cap && a.n_spinners <= cap && a.n_large_ticks <= cap);
    a
}

fn acc_arm(g300: bool, g100: bool, g50: bool, cap: u32) {
    let a = small_attrs(cap);
    let acc: f64 = kani::any();
    kani::assume(acc >= 0.0 && acc <= 1.0);
    let mut b = any_builder(&a, Some(acc));
    b.n300 = if g300 { Some(kani::any()) } else { None };
    b.n100 = if g100 { Some(kani::any()) } else { None };
    b.n50 = if g50 { Some(kani::any()) } else { None };
    let pre = b.clone();
    match b.generate_state() {
        Ok(s) => {
            post(&pre, &a, &s, &b);
            // with accuracy every arm fills the remainder
            let passed = pre.difficulty.get_passed_objects();
            let n = if (a.n_objects() as usize) < passed { a.n_objects() } else { passed as u32 };
            let given: u64 = pre.n300.unwrap_or(0) as u64 + pre.n100.unwrap_or(0) as u64 + pre.n50.unwrap_or(0) as u64 + pre.misses.unwrap_or(0) as u64;
            if given <= n as u64 {
                assert!(s.n300 + s.n100 + s.n50 + s.misses == n, "C12.3 hit results add up to objects (accuracy arm)");
            }
            if let (Some(r), false) = (pre.n300, g100 && g50) {
                assert!(s.n300 == cmp::min(r, n - s.misses), "C12.2 provided n300 kept (accuracy arm)");
            }
        }
        Err(_) => assert!(false, "C12 generate_state on attributes cannot fail"),
    }
}

macro_rules! arm {
    ($name:ident, $a:expr, $b:expr, $c:expr, $cap:expr) => {
        #[kani::proof]
        #[kani::unwind(5)]
        #[kani::stub_verified(NoComboState::accuracy)]
        fn $name() {
            acc_arm($a, $b, $c, $cap);
        }
    };
}

//@ obl: id=U7.osu.genstate.acc_given2 harness=u7_osu_genstate_acc_given2 props=C12 tier=quick kind=proof budget=900
//@ fns: OsuPerformance::generate_state (accuracy arms with two or three results given)
//@ bound: loop-free arms; attribute counts <= 2^20; accuracy any value in [0,1]
//@ clause: osu generate_state with accuracy and at least two of n300/n100/n50 given: C12 clauses (1)-(4),(6)
#[kani::proof]
#[kani::unwind(5)]
fn u7_osu_genstate_acc_given2() {
    let which: u8 = kani::any();
    match which % 4 {
        0 => acc_arm(true, true, true, CAP),
        1 => acc_arm(true, true, false, CAP),
        2 => acc_arm(true, false, true, CAP),
        _ => acc_arm(false, true, true, CAP),
    }
}

//@ obl: id=U7.osu.genstate.acc_300 harness=u7_osu_genstate_acc_300 stubs=yes props=C12 tier=quick kind=proof budget=900
//@ fns: OsuPerformance::generate_state (search arm: n300 given)
//@ bound: attribute counts <= 2^20 (A-BOUND); accuracy any value in [0,1]; every u32 value of the optional fields; search loop floor..=ceil closed by unwind 5, certified by the unwinding assertions; the accuracy helper is used through its verified contract (stub_verified)
//@ clause: osu generate_state with accuracy and only n300 given: C12 clauses (1)-(4),(6); results add up to the objects
arm!(u7_osu_genstate_acc_300, true, false, false, CAP);
//@ obl: id=U7.osu.genstate.acc_100 harness=u7_osu_genstate_acc_100 stubs=yes props=C12 tier=quick kind=proof budget=900
//@ fns: OsuPerformance::generate_state (search arm: n100 given)
//@ bound: as U7.osu.genstate.acc_300
//@ clause: osu generate_state with accuracy and only n100 given: C12 clauses
arm!(u7_osu_genstate_acc_100, false, true, false, CAP);
//@ obl: id=U7.osu.genstate.acc_50 harness=u7_osu_genstate_acc_50 stubs=yes props=C12 tier=quick kind=proof budget=900
//@ fns: OsuPerformance::generate_state (search arm: n50 given)
//@ bound: as U7.osu.genstate.acc_300
//@ clause: osu generate_state with accuracy and only n50 given: C12 clauses
arm!(u7_osu_genstate_acc_50, false, false, true, CAP);
//@ obl: id=U7.osu.genstate.acc_none harness=u7_osu_genstate_acc_none stubs=yes props=C12 tier=quick kind=bounded budget=900
//@ fns: OsuPerformance::generate_state (search arm: no result given, incl. the priority shifting)
//@ bound: bounded: attribute counts <= 20 (the full domain does not finish within 15 min for the nested windows); otherwise as U7.osu.genstate.acc_300 (nested floor..=ceil loops, unwind 5 certified)
//@ clause: osu generate_state with accuracy and no hit result given: C12 clauses; the priority shifting keeps the sum
arm!(u7_osu_genstate_acc_none, false, false, false, 20);
