//@ unit: genstate_osu
//@ target: src/osu/performance/mod.rs
//@ assume: A-BOUND: attribute counts (n_circles, n_sliders, n_spinners, n_large_ticks, max_combo) <= 2^20 each (check_suspicion rejects maps with > 500000 objects); provided hit results / combo / misses / passed_objects range over all of u32
//@ assume: mods are GameMods::Legacy(bits) with all 2^32 bit patterns; lazer GameMods containers (BTreeMap) are not explored
use super::*;
use crate::any::HitResultPriority;

const CAP: u32 = 1 << 20;

fn any_attrs() -> OsuDifficultyAttributes {
    let mut a = OsuDifficultyAttributes::default();
    a.n_circles = kani::any();
    a.n_sliders = kani::any();
    a.n_spinners = kani::any();
    a.n_large_ticks = kani::any();
    a.max_combo = kani::any();
    kani::assume(a.n_circles <= CAP && a.n_sliders <= CAP && a.n_spinners <= CAP);
    kani::assume(a.n_large_ticks <= CAP && a.max_combo <= CAP);
    a
}

fn any_opt() -> Option<u32> {
    if kani::any() {
        Some(kani::any())
    } else {
        None
    }
}

fn any_difficulty() -> Difficulty {
    let bits: u32 = kani::any();
    let mut d = Difficulty::new().mods(bits);
    if kani::any() {
        d = d.passed_objects(kani::any());
    }
    if kani::any() {
        d = d.lazer(kani::any());
    }
    d
}

fn any_builder(attrs: &OsuDifficultyAttributes, acc: Option<f64>) -> OsuPerformance<'static> {
    OsuPerformance {
        map_or_attrs: MapOrAttrs::Attrs(attrs.clone()),
        difficulty: any_difficulty(),
        acc,
        combo: any_opt(),
        large_tick_hits: any_opt(),
        small_tick_hits: any_opt(),
        slider_end_hits: any_opt(),
        n300: any_opt(),
        n100: any_opt(),
        n50: any_opt(),
        misses: any_opt(),
        hitresult_priority: if kani::any() {
            HitResultPriority::BestCase
        } else {
            HitResultPriority::WorstCase
        },
    }
}

/// The C12 postcondition of `OsuPerformance::generate_state`, stated over the builder before the call (`pre`),
/// the attributes, the returned state and the builder after the call.
fn post(pre: &OsuPerformance<'_>, a: &OsuDifficultyAttributes, s: &OsuScoreState, after: &OsuPerformance<'_>) {
    let passed = pre.difficulty.get_passed_objects();
    let n = if (a.n_objects() as usize) < passed { a.n_objects() } else { passed as u32 };
    // (1) never more misses than objects
    assert!(s.misses <= n, "C12.1 misses <= objects");
    if let Some(m) = pre.misses {
        assert!(s.misses == cmp::min(m, n), "C12.1 provided misses clamped to objects");
    } else {
        assert!(s.misses == 0, "C12.1 misses default 0");
    }
    let room = n - s.misses;
    // (2) provided results that fit are kept (never lowered; unchanged unless everything was provided and
    //     the remainder has to go somewhere)
    let all_given = pre.n300.is_some() && pre.n100.is_some() && pre.n50.is_some();
    if pre.acc.is_none() {
        if let Some(r) = pre.n300 {
            if r <= room {
                assert!(if all_given { s.n300 >= r } else { s.n300 == r }, "C12.2 provided n300 kept");
            }
        }
        if let Some(r) = pre.n100 {
            if r <= room {
                assert!(s.n100 == r, "C12.2 provided n100 kept");
            }
        }
        if let Some(r) = pre.n50 {
            if r <= room {
                assert!(if all_given { s.n50 >= r } else { s.n50 == r }, "C12.2 provided n50 kept");
            }
        }
    }
    // (3) results add up to the number of (passed) objects whenever the provided ones do not exceed it
    let provided: u64 = pre.n300.unwrap_or(0) as u64
        + pre.n100.unwrap_or(0) as u64
        + pre.n50.unwrap_or(0) as u64
        + pre.misses.unwrap_or(0) as u64;
    if provided <= n as u64 {
        assert!(s.n300 + s.n100 + s.n50 + s.misses == n, "C12.3 hit results add up to objects");
    }
    assert!(s.n300 <= n && s.n100 <= n && s.n50 <= n, "C12.3 each result <= objects");
    // (4) combo never above the achievable one
    assert!(s.max_combo <= a.max_combo.saturating_sub(s.misses), "C12.4 combo <= max_combo - misses");
    if let Some(c) = pre.combo {
        if c <= a.max_combo.saturating_sub(s.misses) {
            assert!(s.max_combo == c, "C12.2 provided combo kept");
        }
    }
    // slider results: bounded by what the map has, provided values that fit are kept
    let lazer = pre.difficulty.get_lazer();
    let classic = pre.difficulty.get_mods().no_slider_head_acc(lazer);
    if !lazer {
        assert!(s.slider_end_hits == 0 && s.large_tick_hits == 0 && s.small_tick_hits == 0, "C12.s stable has no slider results");
    } else if !classic {
        assert!(s.slider_end_hits <= a.n_sliders && s.large_tick_hits <= a.n_large_ticks && s.small_tick_hits == 0, "C12.s slider results bounded");
        if let Some(x) = pre.slider_end_hits {
            assert!(s.slider_end_hits == cmp::min(x, a.n_sliders), "C12.2 provided slider ends kept");
        }
        if let Some(x) = pre.large_tick_hits {
            assert!(s.large_tick_hits == cmp::min(x, a.n_large_ticks), "C12.2 provided large ticks kept");
        }
    } else {
        assert!(s.small_tick_hits <= a.n_sliders && s.large_tick_hits <= a.n_sliders + a.n_large_ticks && s.slider_end_hits == 0, "C12.s classic slider results bounded");
        if let Some(x) = pre.small_tick_hits {
            assert!(s.small_tick_hits == cmp::min(x, a.n_sliders), "C12.2 provided small ticks kept");
        }
    }
    // (6) calculate() uses exactly this state: after generate_state every optional field holds the generated
    //     value and the attributes are kept, so the generate_state() call at the top of calculate() returns it again
    assert!(after.combo == Some(s.max_combo) && after.misses == Some(s.misses), "C12.6 builder stores generated combo/misses");
    assert!(after.n300 == Some(s.n300) && after.n100 == Some(s.n100) && after.n50 == Some(s.n50), "C12.6 builder stores generated results");
    assert!(
        after.slider_end_hits == Some(s.slider_end_hits)
            && after.large_tick_hits == Some(s.large_tick_hits)
            && after.small_tick_hits == Some(s.small_tick_hits),
        "C12.6 builder stores generated slider results"
    );
    assert!(matches!(after.map_or_attrs, MapOrAttrs::Attrs(_)), "C12.6 attributes kept");
    assert!(after.hitresult_priority == pre.hitresult_priority && after.acc == pre.acc, "C12.6 frame: priority/acc untouched");
}

//@ obl: id=U7.osu.genstate.noacc harness=u7_osu_genstate_noacc props=C12,C05 tier=quick kind=proof
//@ fns: OsuPerformance::generate_state, OsuDifficultyAttributes::n_objects, Difficulty::get_passed_objects, Difficulty::get_lazer, GameMods::no_slider_head_acc
//@ bound: loop-free on this path; every u32 value of the 8 optional fields, passed_objects, mods bits; attribute counts <= 2^20
//@ clause: osu generate_state without accuracy: (1) misses' = min(misses, N) <= N=min(passed, n_objects); (2) provided n300/n100/n50/combo/slider results that fit are kept; (3) sum provided <= N ==> n300'+n100'+n50'+misses' == N; (4) combo' <= max_combo - misses'; (6) builder afterwards holds Some(generated value) in every field and keeps the attributes; no arithmetic overflow, no panic
#[kani::proof]
fn u7_osu_genstate_noacc() {
    let a = any_attrs();
    let mut b = any_builder(&a, None);
    let pre = b.clone();
    kani::cover!(pre.n300.is_some() && pre.misses.is_some() && pre.difficulty.get_lazer());
    match b.generate_state() {
        Ok(s) => post(&pre, &a, &s, &b),
        Err(_) => assert!(false, "C12 generate_state on attributes cannot fail"),
    }
}

//@ obl: id=U7.osu.genstate.idem harness=u7_osu_genstate_idem props=C12 tier=quick kind=proof
//@ fns: OsuPerformance::generate_state
//@ bound: loop-free; same domain as U7.osu.genstate.noacc
//@ clause: (5) idempotence: a second generate_state() returns the same state and leaves the builder unchanged
#[kani::proof]
fn u7_osu_genstate_idem() {
    let a = any_attrs();
    let mut b = any_builder(&a, None);
    let s1 = match b.generate_state() {
        Ok(s) => s,
        Err(_) => return,
    };
    let mid = b.clone();
    let s2 = match b.generate_state() {
        Ok(s) => s,
        Err(_) => {
            assert!(false, "C12.5 second generate_state cannot fail");
            return;
        }
    };
    assert!(s1 == s2, "C12.5 second generate_state returns the same state");
    assert!(b == mid, "C12.5 second generate_state leaves the builder unchanged");
}
