//@ unit: performance_enum
//@ target: src/any/performance/mod.rs
//@ assume: builders are created from default attributes (the setters never read them); mods are GameMods::Legacy(bits)
use super::*;
use crate::{
    catch::CatchDifficultyAttributes, mania::ManiaDifficultyAttributes, osu::OsuDifficultyAttributes,
    taiko::TaikoDifficultyAttributes,
};

fn any_md() -> Option<(f32, bool)> {
    if kani::any() {
        let v: f32 = kani::any();
        kani::assume(!v.is_nan());
        Some((v, kani::any()))
    } else {
        None
    }
}

fn any_difficulty() -> Difficulty {
    let bits: u32 = kani::any();
    let mut d = Difficulty::new().mods(bits);
    if kani::any() {
        d = d.passed_objects(kani::any());
    }
    if kani::any() {
        d = d.clock_rate(kani::any());
    }
    if let Some((v, w)) = any_md() {
        d = d.ar(v, w);
    }
    if let Some((v, w)) = any_md() {
        d = d.cs(v, w);
    }
    if let Some((v, w)) = any_md() {
        d = d.hp(v, w);
    }
    if let Some((v, w)) = any_md() {
        d = d.od(v, w);
    }
    if kani::any() {
        d = d.hardrock_offsets(kani::any());
    }
    if kani::any() {
        d = d.lazer(kani::any());
    }
    d
}

use crate::util::map_or_attrs::MapOrAttrs;

/// Per mode: build the mode's builder directly (MapOrAttrs::Attrs, so that no Beatmap code is reachable), wrap it in
/// the `Performance` enum, apply the enum's setter and compare the unwrapped builder with the expectation.
/// `forwards`: true = the setter must be equivalent to applying it on the Difficulty,
/// false = documented as irrelevant for that mode: the builder must stay untouched.
macro_rules! mode_check {
    ($check:ident, $variant:ident, $builder:ty, $attrs:ty) => {
        fn $check(
            forwards: Option<bool>,
            on_perf: &impl Fn(Performance<'static>) -> Performance<'static>,
            on_diff: &impl Fn(Difficulty) -> Difficulty,
        ) {
            let Some(forwards) = forwards else { return };
            let d0 = any_difficulty();
            let inner = <$builder>::from_map_or_attrs(MapOrAttrs::Attrs(<$attrs>::default()));
            // some score settings so that "unchanged" is not only about defaults
            let inner = if kani::any() { inner.misses(kani::any()) } else { inner };
            let inner = inner.difficulty(d0.clone());
            let expect = if forwards { inner.clone().difficulty(on_diff(d0)) } else { inner.clone() };
            match on_perf(Performance::$variant(inner)) {
                Performance::$variant(got) => {
                    if forwards {
                        assert!(got == expect, "C18 Performance setter == same setter applied on the Difficulty");
                    } else {
                        assert!(got == expect, "C18 setter irrelevant for this mode leaves the builder untouched");
                    }
                }
                _ => assert!(false, "C18 setter keeps the mode"),
            }
        }
    };
}

mode_check!(check_osu, Osu, OsuPerformance<'static>, OsuDifficultyAttributes);
mode_check!(check_taiko, Taiko, TaikoPerformance<'static>, TaikoDifficultyAttributes);
mode_check!(check_catch, Catch, CatchPerformance<'static>, CatchDifficultyAttributes);
mode_check!(check_mania, Mania, ManiaPerformance<'static>, ManiaDifficultyAttributes);

/// forwards = [osu, taiko, catch, mania]
fn check_fwd(
    forwards: [bool; 4],
    on_perf: impl Fn(Performance<'static>) -> Performance<'static>,
    on_diff: impl Fn(Difficulty) -> Difficulty,
) {
    check_osu(Some(forwards[0]), &on_perf, &on_diff);
    check_taiko(Some(forwards[1]), &on_perf, &on_diff);
    check_catch(Some(forwards[2]), &on_perf, &on_diff);
    check_mania(Some(forwards[3]), &on_perf, &on_diff);
}

/// noop = [osu, taiko, catch, mania]: modes for which the setter is documented as irrelevant
fn check_noop(noop: [bool; 4], on_perf: impl Fn(Performance<'static>) -> Performance<'static>) {
    let id = |d: Difficulty| d;
    check_osu(if noop[0] { Some(false) } else { None }, &on_perf, &id);
    check_taiko(if noop[1] { Some(false) } else { None }, &on_perf, &id);
    check_catch(if noop[2] { Some(false) } else { None }, &on_perf, &id);
    check_mania(if noop[3] { Some(false) } else { None }, &on_perf, &id);
}

fn non_nan_f32() -> f32 {
    let v: f32 = kani::any();
    kani::assume(!v.is_nan());
    v
}

const ALL: [bool; 4] = [true, true, true, true];

//@ obl: id=U8.perf.mods harness=u8_perf_mods props=C18 tier=quick kind=proof
//@ fns: Performance::mods, {Osu,Taiko,Catch,Mania}Performance::mods, Difficulty::mods
//@ bound: loop-free (unwind 3 certified by unwinding assertions: the Beatmap-cloning loops behind MapOrAttrs::Map are proved unreachable); all four modes, all u32 legacy bits, any Difficulty reachable through setters
//@ clause: P.mods(m) == P.difficulty(D.mods(m)) in every mode
#[kani::proof]
#[kani::unwind(3)]
fn u8_perf_mods() {
    let bits: u32 = kani::any();
    check_fwd(ALL, |p| p.mods(bits), |d| d.mods(bits));
}

//@ obl: id=U8.perf.passed_objects harness=u8_perf_passed_objects props=C18,C03 tier=quick kind=proof
//@ fns: Performance::passed_objects, {Osu,Taiko,Catch,Mania}Performance::passed_objects
//@ bound: loop-free (unwind 3 certified by unwinding assertions: the Beatmap-cloning loops behind MapOrAttrs::Map are proved unreachable); all four modes, all u32
//@ clause: P.passed_objects(n) == P.difficulty(D.passed_objects(n)) in every mode
#[kani::proof]
#[kani::unwind(3)]
fn u8_perf_passed_objects() {
    let n: u32 = kani::any();
    check_fwd(ALL, |p| p.passed_objects(n), |d| d.passed_objects(n));
}

//@ obl: id=U8.perf.clock_rate harness=u8_perf_clock_rate props=C18 tier=quick kind=proof
//@ fns: Performance::clock_rate, {Osu,Taiko,Catch,Mania}Performance::clock_rate
//@ bound: loop-free (unwind 3 certified by unwinding assertions: the Beatmap-cloning loops behind MapOrAttrs::Map are proved unreachable); all four modes, all 2^64 f64 bit patterns
//@ clause: P.clock_rate(x) == P.difficulty(D.clock_rate(x)) in every mode
#[kani::proof]
#[kani::unwind(3)]
fn u8_perf_clock_rate() {
    let x: f64 = kani::any();
    check_fwd(ALL, |p| p.clock_rate(x), |d| d.clock_rate(x));
}

//@ obl: id=U8.perf.ar harness=u8_perf_ar props=C18 tier=quick kind=proof
//@ fns: Performance::ar, OsuPerformance::ar, CatchPerformance::ar
//@ bound: loop-free (unwind 3 certified by unwinding assertions: the Beatmap-cloning loops behind MapOrAttrs::Map are proved unreachable); all non-NaN f32, both flags
//@ clause: P.ar(v,w) == P.difficulty(D.ar(v,w)) for osu and catch; identity for taiko and mania (documented irrelevant)
#[kani::proof]
#[kani::unwind(3)]
fn u8_perf_ar() {
    let (v, w) = (non_nan_f32(), kani::any());
    check_fwd([true, false, true, false], |p| p.ar(v, w), |d| d.ar(v, w));
}

//@ obl: id=U8.perf.cs harness=u8_perf_cs props=C18 tier=quick kind=proof
//@ fns: Performance::cs, OsuPerformance::cs, CatchPerformance::cs
//@ bound: loop-free (unwind 3 certified by unwinding assertions: the Beatmap-cloning loops behind MapOrAttrs::Map are proved unreachable); all non-NaN f32, both flags
//@ clause: P.cs(v,w) == P.difficulty(D.cs(v,w)) for osu and catch; identity for taiko and mania
#[kani::proof]
#[kani::unwind(3)]
fn u8_perf_cs() {
    let (v, w) = (non_nan_f32(), kani::any());
    check_fwd([true, false, true, false], |p| p.cs(v, w), |d| d.cs(v, w));
}

//@ obl: id=U8.perf.hp harness=u8_perf_hp props=C18 tier=quick kind=proof
//@ fns: Performance::hp, {Osu,Taiko,Catch,Mania}Performance::hp
//@ bound: loop-free (unwind 3 certified by unwinding assertions: the Beatmap-cloning loops behind MapOrAttrs::Map are proved unreachable); all non-NaN f32, both flags
//@ clause: P.hp(v,w) == P.difficulty(D.hp(v,w)) in every mode
#[kani::proof]
#[kani::unwind(3)]
fn u8_perf_hp() {
    let (v, w) = (non_nan_f32(), kani::any());
    check_fwd(ALL, |p| p.hp(v, w), |d| d.hp(v, w));
}

//@ obl: id=U8.perf.od harness=u8_perf_od props=C18 tier=quick kind=proof
//@ fns: Performance::od, {Osu,Taiko,Catch,Mania}Performance::od
//@ bound: loop-free (unwind 3 certified by unwinding assertions: the Beatmap-cloning loops behind MapOrAttrs::Map are proved unreachable); all non-NaN f32, both flags
//@ clause: P.od(v,w) == P.difficulty(D.od(v,w)) in every mode
#[kani::proof]
#[kani::unwind(3)]
fn u8_perf_od() {
    let (v, w) = (non_nan_f32(), kani::any());
    check_fwd(ALL, |p| p.od(v, w), |d| d.od(v, w));
}

//@ obl: id=U8.perf.hardrock_offsets harness=u8_perf_hardrock_offsets props=C18 tier=quick kind=proof
//@ fns: Performance::hardrock_offsets, CatchPerformance::hardrock_offsets
//@ bound: loop-free (unwind 3 certified by unwinding assertions: the Beatmap-cloning loops behind MapOrAttrs::Map are proved unreachable); both values
//@ clause: P.hardrock_offsets(b) == P.difficulty(D.hardrock_offsets(b)) for catch; identity for osu, taiko, mania
#[kani::proof]
#[kani::unwind(3)]
fn u8_perf_hardrock_offsets() {
    let b: bool = kani::any();
    check_fwd([false, false, true, false], |p| p.hardrock_offsets(b), |d| d.hardrock_offsets(b));
}

//@ obl: id=U8.perf.lazer harness=u8_perf_lazer props=C18 tier=quick kind=proof
//@ fns: Performance::lazer, OsuPerformance::lazer, ManiaPerformance::lazer
//@ bound: loop-free (unwind 3 certified by unwinding assertions: the Beatmap-cloning loops behind MapOrAttrs::Map are proved unreachable); both values
//@ clause: P.lazer(b) == P.difficulty(D.lazer(b)) for osu and mania (their score-state generation reads it); identity for taiko and catch
#[kani::proof]
#[kani::unwind(3)]
fn u8_perf_lazer() {
    let b: bool = kani::any();
    check_fwd([true, false, false, true], |p| p.lazer(b), |d| d.lazer(b));
}

//@ obl: id=U8.perf.irrelevant harness=u8_perf_irrelevant_setters props=C18 tier=quick kind=proof
//@ fns: Performance::{combo,n50,n_katu,n_geki,large_tick_hits,small_tick_hits,slider_end_hits,hitresult_priority}
//@ bound: loop-free (unwind 3 certified by unwinding assertions: the Beatmap-cloning loops behind MapOrAttrs::Map are proved unreachable); all u32 arguments
//@ clause: setters documented as irrelevant for a mode are the identity there: combo (mania), n50 (taiko), n_katu (osu, taiko), n_geki (osu, taiko, catch), large/small tick and slider end hits (taiko, catch, mania), hitresult_priority (catch)
#[kani::proof]
#[kani::unwind(3)]
fn u8_perf_irrelevant_setters() {
    let x: u32 = kani::any();
    check_noop([false, false, false, true], |p| p.combo(x));
    check_noop([false, true, false, false], |p| p.n50(x));
    check_noop([true, true, false, false], |p| p.n_katu(x));
    check_noop([true, true, true, false], |p| p.n_geki(x));
    check_noop([false, true, true, true], |p| p.large_tick_hits(x));
    check_noop([false, true, true, true], |p| p.small_tick_hits(x));
    check_noop([false, true, true, true], |p| p.slider_end_hits(x));
    check_noop([false, false, true, false], |p| {
        p.hitresult_priority(if x % 2 == 0 { HitResultPriority::BestCase } else { HitResultPriority::WorstCase })
    });
}
