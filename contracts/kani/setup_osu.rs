//@ unit: setup_osu
//@ target: src/osu/difficulty/mod.rs
//@ assume: call-site contract: BeatmapAttributesBuilder::build is replaced by a stub returning arbitrary attributes; what is proved is that the setup stores them unchanged
use super::*;
use crate::model::beatmap::{BeatmapAttributesBuilder, HitWindows};

static mut BUILT: [u64; 6] = [0; 6];
static mut BUILT_OPT: [bool; 2] = [false; 2];

fn stub_build(_b: &BeatmapAttributesBuilder) -> BeatmapAttributes {
    let (ar, hp, great, ok, meh, pre): (f64, f64, f64, f64, f64, f64) = (kani::any(), kani::any(), kani::any(), kani::any(), kani::any(), kani::any());
    let (has_ok, has_meh): (bool, bool) = (kani::any(), kani::any());
    unsafe {
        BUILT = [ar.to_bits(), hp.to_bits(), great.to_bits(), ok.to_bits(), meh.to_bits(), pre.to_bits()];
        BUILT_OPT = [has_ok, has_meh];
    }
    BeatmapAttributes {
        ar,
        od: 0.0,
        cs: 5.0,
        hp,
        clock_rate: 1.0,
        hit_windows: HitWindows { ar: pre, od_great: great, od_ok: if has_ok { Some(ok) } else { None }, od_meh: if has_meh { Some(meh) } else { None } },
    }
}

//@ obl: id=U13.setup.osu harness=u13_setup_osu stubs=yes props=C17 tier=quick kind=proof
//@ fns: OsuDifficultySetup::new
//@ bound: loop-free; the builder output is any f64 bit pattern; object-free osu! map, all legacy mod bits
//@ clause: AR, HP and the great / ok / meh hit windows stored in the osu! difficulty attributes are exactly the attribute builder's output for the same map and settings (missing ok/meh windows become 0)
#[kani::proof]
#[kani::unwind(3)]
#[kani::stub(BeatmapAttributesBuilder::build, stub_build)]
fn u13_setup_osu() {
    let map = Beatmap::default();
    let d = Difficulty::new().mods(kani::any::<u32>());
    let s = OsuDifficultySetup::new(&d, &map);
    unsafe {
        assert!(s.attrs.ar.to_bits() == BUILT[0] && s.attrs.hp.to_bits() == BUILT[1], "C17 osu attributes carry the builder's AR and HP unchanged");
        assert!(s.attrs.great_hit_window.to_bits() == BUILT[2], "C17 osu attributes carry the builder's great hit window unchanged");
        assert!(s.attrs.ok_hit_window.to_bits() == if BUILT_OPT[0] { BUILT[3] } else { 0 }, "C17 osu attributes carry the builder's ok hit window");
        assert!(s.attrs.meh_hit_window.to_bits() == if BUILT_OPT[1] { BUILT[4] } else { 0 }, "C17 osu attributes carry the builder's meh hit window");
    }
    std::mem::forget(map);
}
