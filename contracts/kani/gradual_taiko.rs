//@ unit: gradual_taiko
//@ target: src/taiko/difficulty/gradual.rs
//@ assume: T4: the five skill `process` bodies and `DifficultyValues::eval` are replaced by no-op stubs during verification (float pipelines); their frame - they do not write idx, the object list, its iterator or max_combo - is assumed. Native replays run the real skills.
//@ assume: inductive-step argument (healthy class: map has M >= 3 objects and its first two objects are hits): obligations are proved from ANY state satisfying the representation invariant (total_hits == number of hits H, diff_objects holds objects 2..M-1, idx <= H, iterator positioned directly after the difficulty object that produced value idx (at 0 while idx <= 2; anywhere from there to the end once idx == H), attrs.max_combo == idx, first_combos == Both); that `new` establishes it is not proved
//@ assume: bounded: M (number of hit objects) is fixed per harness; hit/non-hit types of objects 2..M-1 are symbolic; idx and the nth argument are fully symbolic
//@ attr: file=src/taiko/performance/gradual.rs anchor=`pub fn next(&mut self, state: TaikoScoreState)` insert=`#[cfg(kani)] pub(crate) fn __verif_from_parts(difficulty: TaikoGradualDifficulty) -> Self { Self { difficulty } }`
use super::*;
use crate::taiko::difficulty::color::color_data::ColorData;
use crate::taiko::difficulty::object::MonoIndex;
use crate::taiko::difficulty::rhythm::rhythm_data::RhythmData;
use crate::taiko::difficulty::skills::{color::Color, reading::Reading, rhythm::Rhythm, stamina::Stamina};
use crate::taiko::object::HitType;

// `next` evaluates a *clone* of the skills; cloning five skills' buffers is expensive for CBMC and irrelevant to the
// bookkeeping under contract, so clone is a bitwise copy that eval then forgets (no double free).
fn stub_eval(_attrs: &mut TaikoDifficultyAttributes, skills: TaikoSkills, _is_relax: bool) {
    mem::forget(skills);
}
fn stub_skills_clone(s: &TaikoSkills) -> TaikoSkills {
    unsafe { std::ptr::read(s) }
}
fn stub_rhythm<'a>(_s: &mut Rhythm, _c: &TaikoDifficultyObject, _o: &TaikoDifficultyObjects) {}
fn stub_reading<'a>(_s: &mut Reading, _c: &TaikoDifficultyObject, _o: &TaikoDifficultyObjects) {}
fn stub_color<'a>(_s: &mut Color, _c: &TaikoDifficultyObject, _o: &TaikoDifficultyObjects) {}
fn stub_stamina<'a>(_s: &mut Stamina, _c: &TaikoDifficultyObject, _o: &TaikoDifficultyObjects) {}

fn tdo(idx: usize, hit: bool) -> RefCount<TaikoDifficultyObject> {
    RefCount::new(TaikoDifficultyObject {
        idx,
        delta_time: 250.0,
        start_time: 250.0 * (idx + 2) as f64,
        base_hit_type: if hit { HitType::Center } else { HitType::NonHit },
        mono_idx: MonoIndex::None,
        note_idx: 0,
        rhythm_data: RhythmData { same_rhythm_grouped_hit_objects: None, same_patterns_grouped_hit_objects: None, ratio: 1.0 },
        color_data: ColorData::default(),
        effective_bpm: 120.0,
    })
}

/// Builds the struct exactly as `new` does for a map whose object types are `types` (true = hit), then moves it to
/// an arbitrary state of the healthy-class invariant when `symbolic_state` is set.
fn state(types: &[bool], symbolic_state: bool) -> (TaikoGradualDifficulty, usize) {
    state_at(types, if symbolic_state { None } else { Some((0, false)) })
}

/// `at`: None = symbolic idx / exhausted flag, Some((idx, walked_to_end)) = that concrete invariant state
fn state_at(types: &[bool], at: Option<(usize, bool)>) -> (TaikoGradualDifficulty, usize) {
    let symbolic_state = true;
    let m = types.len();
    let mut objs = TaikoDifficultyObjects::with_capacity(4);
    let mut j = 2;
    while j < m {
        objs.push(tdo(j - 2, types[j]));
        j += 1;
    }
    let hits = types.iter().filter(|t| **t).count();
    let first_combos = match (types.first().copied(), types.get(1).copied()) {
        (None, _) | (Some(false), Some(false) | None) => FirstTwoCombos::None,
        (Some(true), Some(false) | None) => FirstTwoCombos::OnlyFirst,
        (Some(false), Some(true)) => FirstTwoCombos::OnlySecond,
        (Some(true), Some(true)) => FirstTwoCombos::Both,
    };
    let mut iter = extend_lifetime(objs.iter());
    let mut idx = 0;
    if symbolic_state {
        idx = match at {
            Some((i, _)) => i,
            None => kani::any(),
        };
        kani::assume(idx <= hits);
        // position the iterator directly after the difficulty object that produced value `idx`
        if idx > 2 {
            let mut seen = 2;
            while seen < idx {
                match iter.next() {
                    Some(o) => {
                        if o.get().base_hit_type.is_hit() {
                            seen += 1;
                        }
                    }
                    None => break,
                }
            }
        }
        if idx == hits && at.map_or_else(|| kani::any(), |(_, w)| w) {
            // an exhausted calculator may already have walked over trailing non-hits
            while iter.next().is_some() {}
        }
    }
    let attrs = TaikoDifficultyAttributes { max_combo: idx as u32, ..Default::default() };
    let g = TaikoGradualDifficulty {
        idx,
        difficulty: Difficulty::new(),
        attrs,
        diff_objects: objs,
        diff_objects_iter: iter,
        skills: TaikoSkills::new(30.0, false),
        total_hits: hits,
        first_combos,
    };
    (g, hits)
}

fn one_step(g: &mut TaikoGradualDifficulty, hits: usize) {
    let idx0 = g.idx;
    let remaining = hits - idx0;
    assert!(g.len() == remaining, "C15.a len() == number of values still to come");
    assert!(g.size_hint() == (remaining, Some(remaining)), "C15.a size_hint() == (remaining, Some(remaining))");
    let consumed;
    let ret;
    if kani::any() {
        ret = g.next();
        assert!(ret.is_some() == (remaining > 0), "C15.b next() is Some iff values remain");
        consumed = if remaining > 0 { 1 } else { 0 };
    } else {
        let k: usize = kani::any();
        ret = g.nth(k);
        assert!(ret.is_some() == (k < remaining), "C15.c nth(k) is Some iff more than k values remain");
        consumed = if k < remaining { k + 1 } else { remaining };
    }
    assert!(g.idx == idx0 + consumed, "C15.bc exactly min(k+1, remaining) values are consumed");
    assert!(g.idx <= hits && g.len() == remaining - consumed, "C15.d invariant preserved: exhausted stays exhausted, len() never underflows");
    if let Some(a) = ret {
        assert!(a.max_combo as usize == g.idx, "C02 the i-th gradual value has max_combo == i hits (C14: taiko max combo equals the number of hits)");
    }
    assert!(g.attrs.max_combo as usize == g.idx, "C02 max_combo counts exactly the consumed hits");
}

macro_rules! stubs {
    ($(#[$m:meta])* fn $name:ident() $body:block) => {
        #[kani::proof]
        #[kani::unwind(8)]
        #[kani::stub(crate::taiko::difficulty::DifficultyValues::eval, stub_eval)]
        #[kani::stub(<TaikoSkills as std::clone::Clone>::clone, stub_skills_clone)]
        #[kani::stub(<Rhythm as StrainSkill>::process, stub_rhythm)]
        #[kani::stub(<Reading as StrainSkill>::process, stub_reading)]
        #[kani::stub(<Color as StrainSkill>::process, stub_color)]
        #[kani::stub(<Stamina as StrainSkill>::process, stub_stamina)]
        fn $name() $body
    };
}

/// every state of the healthy-class invariant for the given (concrete) object types
fn all_states(types: &[bool]) {
    let hits = types.iter().filter(|t| **t).count();
    let mut idx = 0;
    while idx <= hits {
        let (mut g, h) = state_at(types, Some((idx, false)));
        one_step(&mut g, h);
        // dropping the calculator is not under contract here (Rc / Weak drop glue is very expensive for CBMC)
        mem::forget(g);
        if idx == hits {
            let (mut g, h) = state_at(types, Some((idx, true)));
            one_step(&mut g, h);
            mem::forget(g);
        }
        idx += 1;
    }
}

//@ obl: id=U12.taiko.protocol.hhh harness=u12_taiko_protocol_hhh props=C15,C02,C03 tier=quick kind=bounded
//@ fns: TaikoGradualDifficulty::next, TaikoGradualDifficulty::nth, TaikoGradualDifficulty::len, TaikoGradualDifficulty::size_hint
//@ bound: bounded: M = 3 objects with hit (H) / non-hit (n) pattern HHH; every invariant state (each idx 0..=hits, exhausted iterator walked or not) enumerated; operation (next / nth) and the nth argument k symbolic over all usize
//@ clause: C15 (a) len()==remaining, size_hint; (b) next() Some iff remaining>0 and consumes one; (c) nth(k) Some iff k<remaining, consumes min(k+1,remaining); (d) idx never exceeds the number of hits, len() never underflows; the i-th value has max_combo == i
stubs! { fn u12_taiko_protocol_hhh() {
    all_states(&[true, true, true]);
} }

//@ obl: id=U12.taiko.protocol.hhn harness=u12_taiko_protocol_hhn props=C15,C02,C03 tier=quick kind=bounded
//@ fns: TaikoGradualDifficulty::next, TaikoGradualDifficulty::nth, TaikoGradualDifficulty::len, TaikoGradualDifficulty::size_hint
//@ bound: bounded: M = 3 objects with hit (H) / non-hit (n) pattern HHn; every invariant state (each idx 0..=hits, exhausted iterator walked or not) enumerated; operation (next / nth) and the nth argument k symbolic over all usize
//@ clause: C15 (a) len()==remaining, size_hint; (b) next() Some iff remaining>0 and consumes one; (c) nth(k) Some iff k<remaining, consumes min(k+1,remaining); (d) idx never exceeds the number of hits, len() never underflows; the i-th value has max_combo == i
stubs! { fn u12_taiko_protocol_hhn() {
    all_states(&[true, true, false]);
} }

// ---- larger maps: one harness per invariant state (all states in one harness exhaust memory) ----------------------
fn one_state(types: &[bool], idx: usize, walked: bool) {
    let (mut g, h) = state_at(types, Some((idx, walked)));
    one_step(&mut g, h);
    mem::forget(g);
}

//@ obl: id=U12.taiko.protocol.hhhh_i0 harness=u12_taiko_protocol_hhhh_i0 props=C15,C02,C03 tier=thorough kind=bounded budget=1800
//@ fns: TaikoGradualDifficulty::next, TaikoGradualDifficulty::nth, TaikoGradualDifficulty::len, TaikoGradualDifficulty::size_hint
//@ bound: bounded: 4 objects with hit (H) / non-hit (n) pattern HHHH, calculator at position 0; operation (next / nth) and the nth argument symbolic over all usize
//@ clause: C15 (a)-(d) and the count clause as U12.taiko.protocol.hhh
stubs! { fn u12_taiko_protocol_hhhh_i0() {
    one_state(&[true, true, true, true], 0, false);
} }

//@ obl: id=U12.taiko.protocol.hhhh_i1 harness=u12_taiko_protocol_hhhh_i1 props=C15,C02,C03 tier=thorough kind=bounded budget=1800
//@ fns: TaikoGradualDifficulty::next, TaikoGradualDifficulty::nth, TaikoGradualDifficulty::len, TaikoGradualDifficulty::size_hint
//@ bound: bounded: 4 objects with hit (H) / non-hit (n) pattern HHHH, calculator at position 1; operation (next / nth) and the nth argument symbolic over all usize
//@ clause: C15 (a)-(d) and the count clause as U12.taiko.protocol.hhh
stubs! { fn u12_taiko_protocol_hhhh_i1() {
    one_state(&[true, true, true, true], 1, false);
} }

//@ obl: id=U12.taiko.protocol.hhhh_i2 harness=u12_taiko_protocol_hhhh_i2 props=C15,C02,C03 tier=thorough kind=bounded budget=1800
//@ fns: TaikoGradualDifficulty::next, TaikoGradualDifficulty::nth, TaikoGradualDifficulty::len, TaikoGradualDifficulty::size_hint
//@ bound: bounded: 4 objects with hit (H) / non-hit (n) pattern HHHH, calculator at position 2; operation (next / nth) and the nth argument symbolic over all usize
//@ clause: C15 (a)-(d) and the count clause as U12.taiko.protocol.hhh
stubs! { fn u12_taiko_protocol_hhhh_i2() {
    one_state(&[true, true, true, true], 2, false);
} }

//@ obl: id=U12.taiko.protocol.hhhh_i3 harness=u12_taiko_protocol_hhhh_i3 props=C15,C02,C03 tier=thorough kind=bounded budget=1800
//@ fns: TaikoGradualDifficulty::next, TaikoGradualDifficulty::nth, TaikoGradualDifficulty::len, TaikoGradualDifficulty::size_hint
//@ bound: bounded: 4 objects with hit (H) / non-hit (n) pattern HHHH, calculator at position 3; operation (next / nth) and the nth argument symbolic over all usize
//@ clause: C15 (a)-(d) and the count clause as U12.taiko.protocol.hhh
stubs! { fn u12_taiko_protocol_hhhh_i3() {
    one_state(&[true, true, true, true], 3, false);
} }

//@ obl: id=U12.taiko.protocol.hhhh_i4 harness=u12_taiko_protocol_hhhh_i4 props=C15,C02,C03 tier=thorough kind=bounded budget=1800
//@ fns: TaikoGradualDifficulty::next, TaikoGradualDifficulty::nth, TaikoGradualDifficulty::len, TaikoGradualDifficulty::size_hint
//@ bound: bounded: 4 objects with hit (H) / non-hit (n) pattern HHHH, calculator at position 4; operation (next / nth) and the nth argument symbolic over all usize
//@ clause: C15 (a)-(d) and the count clause as U12.taiko.protocol.hhh
stubs! { fn u12_taiko_protocol_hhhh_i4() {
    one_state(&[true, true, true, true], 4, false);
} }

//@ obl: id=U12.taiko.protocol.hhhh_i4w harness=u12_taiko_protocol_hhhh_i4w props=C15,C02,C03 tier=thorough kind=bounded budget=1800
//@ fns: TaikoGradualDifficulty::next, TaikoGradualDifficulty::nth, TaikoGradualDifficulty::len, TaikoGradualDifficulty::size_hint
//@ bound: bounded: 4 objects with hit (H) / non-hit (n) pattern HHHH, calculator at position 4 (exhausted, iterator walked to the end); operation (next / nth) and the nth argument symbolic over all usize
//@ clause: C15 (a)-(d) and the count clause as U12.taiko.protocol.hhh
stubs! { fn u12_taiko_protocol_hhhh_i4w() {
    one_state(&[true, true, true, true], 4, true);
} }

//@ obl: id=U12.taiko.protocol.hhnh_i0 harness=u12_taiko_protocol_hhnh_i0 props=C15,C02,C03 tier=thorough kind=bounded budget=1800
//@ fns: TaikoGradualDifficulty::next, TaikoGradualDifficulty::nth, TaikoGradualDifficulty::len, TaikoGradualDifficulty::size_hint
//@ bound: bounded: 4 objects with hit (H) / non-hit (n) pattern HHnH, calculator at position 0; operation (next / nth) and the nth argument symbolic over all usize
//@ clause: C15 (a)-(d) and the count clause as U12.taiko.protocol.hhh
stubs! { fn u12_taiko_protocol_hhnh_i0() {
    one_state(&[true, true, false, true], 0, false);
} }

//@ obl: id=U12.taiko.protocol.hhnh_i1 harness=u12_taiko_protocol_hhnh_i1 props=C15,C02,C03 tier=thorough kind=bounded budget=1800
//@ fns: TaikoGradualDifficulty::next, TaikoGradualDifficulty::nth, TaikoGradualDifficulty::len, TaikoGradualDifficulty::size_hint
//@ bound: bounded: 4 objects with hit (H) / non-hit (n) pattern HHnH, calculator at position 1; operation (next / nth) and the nth argument symbolic over all usize
//@ clause: C15 (a)-(d) and the count clause as U12.taiko.protocol.hhh
stubs! { fn u12_taiko_protocol_hhnh_i1() {
    one_state(&[true, true, false, true], 1, false);
} }

//@ obl: id=U12.taiko.protocol.hhnh_i2 harness=u12_taiko_protocol_hhnh_i2 props=C15,C02,C03 tier=thorough kind=bounded budget=1800
//@ fns: TaikoGradualDifficulty::next, TaikoGradualDifficulty::nth, TaikoGradualDifficulty::len, TaikoGradualDifficulty::size_hint
//@ bound: bounded: 4 objects with hit (H) / non-hit (n) pattern HHnH, calculator at position 2; operation (next / nth) and the nth argument symbolic over all usize
//@ clause: C15 (a)-(d) and the count clause as U12.taiko.protocol.hhh
stubs! { fn u12_taiko_protocol_hhnh_i2() {
    one_state(&[true, true, false, true], 2, false);
} }

//@ obl: id=U12.taiko.protocol.hhnh_i3 harness=u12_taiko_protocol_hhnh_i3 props=C15,C02,C03 tier=thorough kind=bounded budget=1800
//@ fns: TaikoGradualDifficulty::next, TaikoGradualDifficulty::nth, TaikoGradualDifficulty::len, TaikoGradualDifficulty::size_hint
//@ bound: bounded: 4 objects with hit (H) / non-hit (n) pattern HHnH, calculator at position 3; operation (next / nth) and the nth argument symbolic over all usize
//@ clause: C15 (a)-(d) and the count clause as U12.taiko.protocol.hhh
stubs! { fn u12_taiko_protocol_hhnh_i3() {
    one_state(&[true, true, false, true], 3, false);
} }

//@ obl: id=U12.taiko.protocol.hhnh_i3w harness=u12_taiko_protocol_hhnh_i3w props=C15,C02,C03 tier=thorough kind=bounded budget=1800
//@ fns: TaikoGradualDifficulty::next, TaikoGradualDifficulty::nth, TaikoGradualDifficulty::len, TaikoGradualDifficulty::size_hint
//@ bound: bounded: 4 objects with hit (H) / non-hit (n) pattern HHnH, calculator at position 3 (exhausted, iterator walked to the end); operation (next / nth) and the nth argument symbolic over all usize
//@ clause: C15 (a)-(d) and the count clause as U12.taiko.protocol.hhh
stubs! { fn u12_taiko_protocol_hhnh_i3w() {
    one_state(&[true, true, false, true], 3, true);
} }

//@ obl: id=U12.taiko.protocol.hhhn_i0 harness=u12_taiko_protocol_hhhn_i0 props=C15,C02,C03 tier=thorough kind=bounded budget=1800
//@ fns: TaikoGradualDifficulty::next, TaikoGradualDifficulty::nth, TaikoGradualDifficulty::len, TaikoGradualDifficulty::size_hint
//@ bound: bounded: 4 objects with hit (H) / non-hit (n) pattern HHHn, calculator at position 0; operation (next / nth) and the nth argument symbolic over all usize
//@ clause: C15 (a)-(d) and the count clause as U12.taiko.protocol.hhh
stubs! { fn u12_taiko_protocol_hhhn_i0() {
    one_state(&[true, true, true, false], 0, false);
} }

//@ obl: id=U12.taiko.protocol.hhhn_i1 harness=u12_taiko_protocol_hhhn_i1 props=C15,C02,C03 tier=thorough kind=bounded budget=1800
//@ fns: TaikoGradualDifficulty::next, TaikoGradualDifficulty::nth, TaikoGradualDifficulty::len, TaikoGradualDifficulty::size_hint
//@ bound: bounded: 4 objects with hit (H) / non-hit (n) pattern HHHn, calculator at position 1; operation (next / nth) and the nth argument symbolic over all usize
//@ clause: C15 (a)-(d) and the count clause as U12.taiko.protocol.hhh
stubs! { fn u12_taiko_protocol_hhhn_i1() {
    one_state(&[true, true, true, false], 1, false);
} }

//@ obl: id=U12.taiko.protocol.hhhn_i2 harness=u12_taiko_protocol_hhhn_i2 props=C15,C02,C03 tier=thorough kind=bounded budget=1800
//@ fns: TaikoGradualDifficulty::next, TaikoGradualDifficulty::nth, TaikoGradualDifficulty::len, TaikoGradualDifficulty::size_hint
//@ bound: bounded: 4 objects with hit (H) / non-hit (n) pattern HHHn, calculator at position 2; operation (next / nth) and the nth argument symbolic over all usize
//@ clause: C15 (a)-(d) and the count clause as U12.taiko.protocol.hhh
stubs! { fn u12_taiko_protocol_hhhn_i2() {
    one_state(&[true, true, true, false], 2, false);
} }

//@ obl: id=U12.taiko.protocol.hhhn_i3 harness=u12_taiko_protocol_hhhn_i3 props=C15,C02,C03 tier=thorough kind=bounded budget=1800
//@ fns: TaikoGradualDifficulty::next, TaikoGradualDifficulty::nth, TaikoGradualDifficulty::len, TaikoGradualDifficulty::size_hint
//@ bound: bounded: 4 objects with hit (H) / non-hit (n) pattern HHHn, calculator at position 3; operation (next / nth) and the nth argument symbolic over all usize
//@ clause: C15 (a)-(d) and the count clause as U12.taiko.protocol.hhh
stubs! { fn u12_taiko_protocol_hhhn_i3() {
    one_state(&[true, true, true, false], 3, false);
} }

//@ obl: id=U12.taiko.protocol.hhhn_i3w harness=u12_taiko_protocol_hhhn_i3w props=C15,C02,C03 tier=thorough kind=bounded budget=1800
//@ fns: TaikoGradualDifficulty::next, TaikoGradualDifficulty::nth, TaikoGradualDifficulty::len, TaikoGradualDifficulty::size_hint
//@ bound: bounded: 4 objects with hit (H) / non-hit (n) pattern HHHn, calculator at position 3 (exhausted, iterator walked to the end); operation (next / nth) and the nth argument symbolic over all usize
//@ clause: C15 (a)-(d) and the count clause as U12.taiko.protocol.hhh
stubs! { fn u12_taiko_protocol_hhhn_i3w() {
    one_state(&[true, true, true, false], 3, true);
} }

//@ obl: id=U12.taiko.protocol.hhnn_i0 harness=u12_taiko_protocol_hhnn_i0 props=C15,C02,C03 tier=thorough kind=bounded budget=1800
//@ fns: TaikoGradualDifficulty::next, TaikoGradualDifficulty::nth, TaikoGradualDifficulty::len, TaikoGradualDifficulty::size_hint
//@ bound: bounded: 4 objects with hit (H) / non-hit (n) pattern HHnn, calculator at position 0; operation (next / nth) and the nth argument symbolic over all usize
//@ clause: C15 (a)-(d) and the count clause as U12.taiko.protocol.hhh
stubs! { fn u12_taiko_protocol_hhnn_i0() {
    one_state(&[true, true, false, false], 0, false);
} }

//@ obl: id=U12.taiko.protocol.hhnn_i1 harness=u12_taiko_protocol_hhnn_i1 props=C15,C02,C03 tier=thorough kind=bounded budget=1800
//@ fns: TaikoGradualDifficulty::next, TaikoGradualDifficulty::nth, TaikoGradualDifficulty::len, TaikoGradualDifficulty::size_hint
//@ bound: bounded: 4 objects with hit (H) / non-hit (n) pattern HHnn, calculator at position 1; operation (next / nth) and the nth argument symbolic over all usize
//@ clause: C15 (a)-(d) and the count clause as U12.taiko.protocol.hhh
stubs! { fn u12_taiko_protocol_hhnn_i1() {
    one_state(&[true, true, false, false], 1, false);
} }

//@ obl: id=U12.taiko.protocol.hhnn_i2 harness=u12_taiko_protocol_hhnn_i2 props=C15,C02,C03 tier=thorough kind=bounded budget=1800
//@ fns: TaikoGradualDifficulty::next, TaikoGradualDifficulty::nth, TaikoGradualDifficulty::len, TaikoGradualDifficulty::size_hint
//@ bound: bounded: 4 objects with hit (H) / non-hit (n) pattern HHnn, calculator at position 2; operation (next / nth) and the nth argument symbolic over all usize
//@ clause: C15 (a)-(d) and the count clause as U12.taiko.protocol.hhh
stubs! { fn u12_taiko_protocol_hhnn_i2() {
    one_state(&[true, true, false, false], 2, false);
} }

//@ obl: id=U12.taiko.protocol.hhnn_i2w harness=u12_taiko_protocol_hhnn_i2w props=C15,C02,C03 tier=thorough kind=bounded budget=1800
//@ fns: TaikoGradualDifficulty::next, TaikoGradualDifficulty::nth, TaikoGradualDifficulty::len, TaikoGradualDifficulty::size_hint
//@ bound: bounded: 4 objects with hit (H) / non-hit (n) pattern HHnn, calculator at position 2 (exhausted, iterator walked to the end); operation (next / nth) and the nth argument symbolic over all usize
//@ clause: C15 (a)-(d) and the count clause as U12.taiko.protocol.hhh
stubs! { fn u12_taiko_protocol_hhnn_i2w() {
    one_state(&[true, true, false, false], 2, true);
} }

//@ obl: id=U12.taiko.protocol.hhhnh_i0 harness=u12_taiko_protocol_hhhnh_i0 props=C15,C02,C03 tier=thorough kind=bounded budget=1800
//@ fns: TaikoGradualDifficulty::next, TaikoGradualDifficulty::nth, TaikoGradualDifficulty::len, TaikoGradualDifficulty::size_hint
//@ bound: bounded: 5 objects with hit (H) / non-hit (n) pattern HHHnH, calculator at position 0; operation (next / nth) and the nth argument symbolic over all usize
//@ clause: C15 (a)-(d) and the count clause as U12.taiko.protocol.hhh
stubs! { fn u12_taiko_protocol_hhhnh_i0() {
    one_state(&[true, true, true, false, true], 0, false);
} }

//@ obl: id=U12.taiko.protocol.hhhnh_i1 harness=u12_taiko_protocol_hhhnh_i1 props=C15,C02,C03 tier=thorough kind=bounded budget=1800
//@ fns: TaikoGradualDifficulty::next, TaikoGradualDifficulty::nth, TaikoGradualDifficulty::len, TaikoGradualDifficulty::size_hint
//@ bound: bounded: 5 objects with hit (H) / non-hit (n) pattern HHHnH, calculator at position 1; operation (next / nth) and the nth argument symbolic over all usize
//@ clause: C15 (a)-(d) and the count clause as U12.taiko.protocol.hhh
stubs! { fn u12_taiko_protocol_hhhnh_i1() {
    one_state(&[true, true, true, false, true], 1, false);
} }

//@ obl: id=U12.taiko.protocol.hhhnh_i2 harness=u12_taiko_protocol_hhhnh_i2 props=C15,C02,C03 tier=thorough kind=bounded budget=1800
//@ fns: TaikoGradualDifficulty::next, TaikoGradualDifficulty::nth, TaikoGradualDifficulty::len, TaikoGradualDifficulty::size_hint
//@ bound: bounded: 5 objects with hit (H) / non-hit (n) pattern HHHnH, calculator at position 2; operation (next / nth) and the nth argument symbolic over all usize
//@ clause: C15 (a)-(d) and the count clause as U12.taiko.protocol.hhh
stubs! { fn u12_taiko_protocol_hhhnh_i2() {
    one_state(&[true, true, true, false, true], 2, false);
} }

//@ obl: id=U12.taiko.protocol.hhhnh_i3 harness=u12_taiko_protocol_hhhnh_i3 props=C15,C02,C03 tier=thorough kind=bounded budget=1800
//@ fns: TaikoGradualDifficulty::next, TaikoGradualDifficulty::nth, TaikoGradualDifficulty::len, TaikoGradualDifficulty::size_hint
//@ bound: bounded: 5 objects with hit (H) / non-hit (n) pattern HHHnH, calculator at position 3; operation (next / nth) and the nth argument symbolic over all usize
//@ clause: C15 (a)-(d) and the count clause as U12.taiko.protocol.hhh
stubs! { fn u12_taiko_protocol_hhhnh_i3() {
    one_state(&[true, true, true, false, true], 3, false);
} }

//@ obl: id=U12.taiko.protocol.hhhnh_i4 harness=u12_taiko_protocol_hhhnh_i4 props=C15,C02,C03 tier=thorough kind=bounded budget=1800
//@ fns: TaikoGradualDifficulty::next, TaikoGradualDifficulty::nth, TaikoGradualDifficulty::len, TaikoGradualDifficulty::size_hint
//@ bound: bounded: 5 objects with hit (H) / non-hit (n) pattern HHHnH, calculator at position 4; operation (next / nth) and the nth argument symbolic over all usize
//@ clause: C15 (a)-(d) and the count clause as U12.taiko.protocol.hhh
stubs! { fn u12_taiko_protocol_hhhnh_i4() {
    one_state(&[true, true, true, false, true], 4, false);
} }

//@ obl: id=U12.taiko.protocol.hhhnh_i4w harness=u12_taiko_protocol_hhhnh_i4w props=C15,C02,C03 tier=thorough kind=bounded budget=1800
//@ fns: TaikoGradualDifficulty::next, TaikoGradualDifficulty::nth, TaikoGradualDifficulty::len, TaikoGradualDifficulty::size_hint
//@ bound: bounded: 5 objects with hit (H) / non-hit (n) pattern HHHnH, calculator at position 4 (exhausted, iterator walked to the end); operation (next / nth) and the nth argument symbolic over all usize
//@ clause: C15 (a)-(d) and the count clause as U12.taiko.protocol.hhh
stubs! { fn u12_taiko_protocol_hhhnh_i4w() {
    one_state(&[true, true, true, false, true], 4, true);
} }

//@ obl: id=U12.taiko.short_maps harness=u12_taiko_short_maps props=C15,C02 tier=quick kind=bounded
//@ fns: TaikoGradualDifficulty::next, TaikoGradualDifficulty::len
//@ bound: bounded: maps of 1 or 2 hits; the state is the one `new` constructs (idx == 0)
//@ clause: C15 (a)/(b) on the freshly constructed calculator of a map with fewer than three objects: len() == number of hits and next() yields a value while values remain
stubs! { fn u12_taiko_short_maps() {
    let two: bool = kani::any();
    let (mut g, hits) = if two { state(&[true, true], false) } else { state(&[true], false) };
    one_step(&mut g, hits);
    mem::forget(g);
} }

//@ obl: id=U12.taiko.nonhit_first harness=u12_taiko_nonhit_first props=C15,C02 tier=quick kind=bounded
//@ fns: TaikoGradualDifficulty::next, TaikoGradualDifficulty::len
//@ bound: bounded: M = 4 objects with a non-hit among the first two, rest hits; trace of up to M+1 next() calls from the state `new` constructs
//@ clause: C15 along the plain iteration trace of a map whose first or second object is a spinner/drum roll: the calculator yields exactly len() values, each value i has max_combo == i, and len() never panics
stubs! { fn u12_taiko_nonhit_first() {
    let first_is_hit: bool = kani::any();
    let (mut g, hits) = state(&[first_is_hit, !first_is_hit, true, true], false);
    let announced = g.len();
    assert!(announced == hits, "C15.a announced length == number of hits");
    let mut produced = 0;
    let mut i = 0;
    while i < 5 {
        match g.next() {
            Some(a) => {
                produced += 1;
                assert!(a.max_combo as usize == produced, "C02 the i-th value has max_combo == i");
            }
            None => break,
        }
        i += 1;
    }
    assert!(produced == announced, "C02 produces exactly as many values as announced");
    assert!(g.idx <= hits, "C15.d exhausted calculator: len() does not underflow");
    mem::forget(g);
} }

// ---- C03: gradual performance = one-shot performance of the partial play ------------------------------------------
use crate::taiko::performance::gradual::TaikoGradualPerformance;
use crate::taiko::performance::TaikoPerformance;
use crate::taiko::{TaikoPerformanceAttributes, TaikoScoreState};

static mut EXP_BITS: u32 = 0;
static mut EXP_PASSED: Option<u32> = None;
static mut EXP_LAZER: Option<bool> = None;
static mut EXP_STATE: [u32; 4] = [0; 4];
static mut EXP_I: u32 = 0;
static mut REC_CALLS: u32 = 0;
static mut REC_MATCH: bool = false;

fn user_difficulty() -> Difficulty {
    unsafe {
        let mut d = Difficulty::new().mods(EXP_BITS);
        if let Some(p) = EXP_PASSED {
            d = d.passed_objects(p);
        }
        if let Some(l) = EXP_LAZER {
            d = d.lazer(l);
        }
        d
    }
}

fn user_state() -> TaikoScoreState {
    unsafe { TaikoScoreState { max_combo: EXP_STATE[0], n300: EXP_STATE[1], n100: EXP_STATE[2], misses: EXP_STATE[3] } }
}

fn rec_calculate<'map>(this: TaikoPerformance<'map>) -> Result<TaikoPerformanceAttributes, ConvertError>
where
    'map: 'map, // early-bound, so that the generic parameter count matches the stubbed method
{
    unsafe {
        REC_CALLS += 1;
        let expect = this.clone().difficulty(user_difficulty()).passed_objects(EXP_I).state(user_state());
        REC_MATCH = this == expect;
        mem::forget(expect);
    }
    mem::forget(this);
    Ok(TaikoPerformanceAttributes::default())
}

fn perf_step(types: &[bool], idx: usize) {
    let (mut g, hits) = state_at(types, Some((idx, false)));
    unsafe {
        EXP_BITS = kani::any();
        EXP_PASSED = if kani::any() { Some(kani::any()) } else { None };
        EXP_LAZER = if kani::any() { Some(kani::any()) } else { None };
        EXP_STATE = kani::any();
        REC_CALLS = 0;
        REC_MATCH = false;
    }
    g.difficulty = user_difficulty();
    let idx0 = g.idx;
    let remaining = hits - idx0;
    let mut p = TaikoGradualPerformance::__verif_from_parts(g);
    let which: u8 = kani::any();
    let k: usize = kani::any();
    let consumed = match which % 3 {
        0 => if remaining > 0 { 1 } else { 0 },
        1 => remaining,
        _ => if k < remaining { k + 1 } else { remaining },
    };
    unsafe {
        EXP_I = (idx0 + consumed) as u32;
    }
    let ret = match which % 3 {
        0 => p.next(user_state()),
        1 => p.last(user_state()),
        _ => p.nth(user_state(), k),
    };
    assert!(p.len() == remaining - consumed, "C15.e gradual performance processes min(n+1, remaining) objects (last: all remaining)");
    assert!(ret.is_some() == (remaining > 0), "C15.e gradual performance returns None exactly when nothing remains");
    unsafe {
        if remaining == 0 {
            assert!(REC_CALLS == 0, "C03 nothing is calculated when nothing remains");
        } else {
            assert!(REC_CALLS == 1, "C03 exactly one performance calculation per step");
            assert!(REC_MATCH, "C03 gradual performance evaluates exactly the one-shot builder: same settings, passed_objects(i), same state");
        }
    }
    mem::forget(p);
}

//@ obl: id=U12.taiko.perf.hhh harness=u12_taiko_perf_hhh stubs=yes props=C03,C15 tier=quick kind=bounded
//@ fns: TaikoGradualPerformance::next, TaikoGradualPerformance::nth, TaikoGradualPerformance::last, TaikoGradualPerformance::len
//@ bound: bounded: map of three hits; every calculator position 0..=3 enumerated; the nth argument, the score state and the caller's Difficulty (mods bits, passed_objects, lazer) symbolic; TaikoPerformance::calculate replaced by a recording stub
//@ clause: C15 (e) and C03 as for the other modes: min(n+1, remaining) objects processed, None exactly when nothing remains, and the builder that gets calculated equals Performance(attrs_i).difficulty(D).passed_objects(i).state(S)
#[kani::proof]
#[kani::unwind(8)]
#[kani::stub(crate::taiko::difficulty::DifficultyValues::eval, stub_eval)]
#[kani::stub(<TaikoSkills as std::clone::Clone>::clone, stub_skills_clone)]
#[kani::stub(<Rhythm as StrainSkill>::process, stub_rhythm)]
#[kani::stub(<Reading as StrainSkill>::process, stub_reading)]
#[kani::stub(<Color as StrainSkill>::process, stub_color)]
#[kani::stub(<Stamina as StrainSkill>::process, stub_stamina)]
#[kani::stub(crate::taiko::performance::TaikoPerformance::calculate, rec_calculate)]
fn u12_taiko_perf_hhh() {
    let types = [true, true, true];
    let mut idx = 0;
    while idx <= 3 {
        perf_step(&types, idx);
        idx += 1;
    }
}

// ---- base case: the real constructor on small native taiko maps -----------------------------------------------------
fn stub_new_preprocess(_objs: &TaikoDifficultyObjects) {}
fn stub_new_tdo(
    hit_object: &crate::taiko::object::TaikoObject,
    _last_object: &crate::taiko::object::TaikoObject,
    _clock_rate: f64,
    idx: usize,
    _map: &Beatmap,
    _global_slider_velocity: f64,
    _objects: &mut TaikoDifficultyObjects,
) -> RefCount<TaikoDifficultyObject> {
    RefCount::new(TaikoDifficultyObject {
        idx,
        delta_time: 250.0,
        start_time: hit_object.start_time,
        base_hit_type: hit_object.hit_type,
        mono_idx: MonoIndex::None,
        note_idx: 0,
        rhythm_data: RhythmData { same_rhythm_grouped_hit_objects: None, same_patterns_grouped_hit_objects: None, ratio: 1.0 },
        color_data: ColorData::default(),
        effective_bpm: 120.0,
    })
}

/// `hits[i]`: object i is a hit (circle) or a spinner; kinds concrete per harness
fn new_base_case(hits: &[bool]) {
    use crate::model::hit_object::{HitObject, HitObjectKind, Spinner};
    use rosu_map::section::hit_objects::hit_samples::HitSoundType;
    use rosu_map::util::Pos;
    let n = hits.len();
    let mut map = Beatmap::default();
    map.mode = GameMode::Taiko;
    let mut n_hits = 0usize;
    let mut later_hits = 0usize;
    let mut i = 0;
    while i < n {
        let kind = if hits[i] { HitObjectKind::Circle } else { HitObjectKind::Spinner(Spinner { duration: 100.0 }) };
        if hits[i] {
            n_hits += 1;
            if i >= 2 {
                later_hits += 1;
            }
        }
        map.hit_objects.push(HitObject { pos: Pos::new(256.0, 192.0), start_time: 500.0 * i as f64, kind });
        map.hit_sounds.push(HitSoundType::default());
        i += 1;
    }
    let g = match TaikoGradualDifficulty::new(Difficulty::new(), &map) {
        Ok(g) => g,
        Err(_) => {
            assert!(false, "C07 a taiko map needs no conversion");
            return;
        }
    };
    // A-INV for idx == 0 (healthy class): position 0, both first objects are hits, total_hits == 2 + hits ahead
    assert!(g.idx == 0 && g.attrs.max_combo == 0, "C15 a new calculator is at position 0 with no combo");
    assert!(g.total_hits == n_hits, "C14 total_hits is the number of hits of the map");
    assert!(matches!(g.first_combos, FirstTwoCombos::Both), "C02 base case: both first objects are hits");
    assert!(g.diff_objects.objects.len() == n - 2, "C02 base case: one difficulty object per object after the second");
    assert!(g.diff_objects_iter.len() == g.diff_objects.objects.len(), "C02 base case: the object iterator starts at the first difficulty object");
    let mut ahead = 0usize;
    let mut j = 0;
    while j < g.diff_objects.objects.len() {
        if g.diff_objects.objects[j].get().base_hit_type.is_hit() {
            ahead += 1;
        }
        j += 1;
    }
    assert!(ahead == later_hits && g.total_hits == 2 + ahead, "C02 base case: total_hits == 2 + hits among the difficulty objects");
    assert!(g.len() == n_hits, "C02 the calculator announces one value per hit");
    assert!(!g.attrs.is_convert, "C14 a taiko map is not a convert");
    std::mem::forget(g);
    std::mem::forget(map);
}

macro_rules! nb {
    ($name:ident, [$($h:expr),*]) => {
        #[kani::proof]
        #[kani::unwind(7)]
        #[kani::stub(crate::taiko::difficulty::color::preprocessor::ColorDifficultyPreprocessor::process_and_assign, stub_new_preprocess)]
        #[kani::stub(crate::taiko::difficulty::rhythm::preprocessor::RhythmDifficultyPreprocessor::process_and_assign, stub_new_preprocess)]
        #[kani::stub(TaikoDifficultyObject::new, stub_new_tdo)]
        fn $name() {
            new_base_case(&[$($h),*]);
        }
    };
}

//@ obl: id=U12.taiko.new.hhh harness=u12_taiko_new_hhh stubs=yes props=C02,C15 tier=quick kind=bounded
//@ fns: TaikoGradualDifficulty::new, taiko DifficultyValues::create_difficulty_objects
//@ bound: bounded: native taiko map of three hits; default Difficulty; colour / rhythm preprocessors and TaikoDifficultyObject::new (float feature extraction) replaced by stubs that keep index and hit type
//@ clause: base case of A-INV on the real constructor (healthy class): idx == 0, max_combo == 0, first_combos == Both, total_hits == number of hits == 2 + hits among the difficulty objects, one difficulty object per object after the second, the object iterator at its start, len() == number of hits
nb!(u12_taiko_new_hhh, [true, true, true]);
//@ obl: id=U12.taiko.new.hhnh harness=u12_taiko_new_hhnh stubs=yes props=C02,C15 tier=quick kind=bounded
//@ fns: TaikoGradualDifficulty::new
//@ bound: bounded: native taiko map hit, hit, spinner, hit; otherwise as U12.taiko.new.hhh
//@ clause: as U12.taiko.new.hhh
nb!(u12_taiko_new_hhnh, [true, true, false, true]);
