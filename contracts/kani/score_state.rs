//@ unit: score_state
//@ target: src/any/score_state.rs
use super::*;

//@ obl: id=U7.score_state.roundtrip harness=u7_score_state_roundtrip props=C12,C03 tier=quick kind=proof
//@ fns: From<{Osu,Taiko,Catch,Mania}ScoreState> for ScoreState, From<ScoreState> for {Osu,Taiko,Catch,Mania}ScoreState
//@ bound: loop-free; every u32 value of every field
//@ clause: converting a mode's score state into the mode-agnostic ScoreState and back is the identity for all four modes - so the state returned by the generic Performance::generate_state(), supplied again through Performance::state(..), is exactly the state the mode's builder generated (no hit result is dropped or moved to another field)
#[kani::proof]
fn u7_score_state_roundtrip() {
    let o = OsuScoreState {
        max_combo: kani::any(),
        large_tick_hits: kani::any(),
        small_tick_hits: kani::any(),
        slider_end_hits: kani::any(),
        n300: kani::any(),
        n100: kani::any(),
        n50: kani::any(),
        misses: kani::any(),
    };
    let back: OsuScoreState = ScoreState::from(o.clone()).into();
    assert!(back == o, "C12 osu score state survives the generic ScoreState unchanged");
    let t = TaikoScoreState { max_combo: kani::any(), n300: kani::any(), n100: kani::any(), misses: kani::any() };
    let back: TaikoScoreState = ScoreState::from(t).into();
    assert!(back == t, "C12 taiko score state survives the generic ScoreState unchanged");
    let c = CatchScoreState {
        max_combo: kani::any(),
        fruits: kani::any(),
        droplets: kani::any(),
        tiny_droplets: kani::any(),
        tiny_droplet_misses: kani::any(),
        misses: kani::any(),
    };
    let back: CatchScoreState = ScoreState::from(c.clone()).into();
    assert!(back == c, "C12 catch score state survives the generic ScoreState unchanged");
    let m = ManiaScoreState { n320: kani::any(), n300: kani::any(), n200: kani::any(), n100: kani::any(), n50: kani::any(), misses: kani::any() };
    let back: ManiaScoreState = ScoreState::from(m.clone()).into();
    assert!(back == m, "C12 mania score state survives the generic ScoreState unchanged");
}
