//@ unit: ctrlpt
//@ target: src/model/beatmap/decode.rs
//@ assume: A-ORD: 'strictly ordered' means strictly increasing in f64::total_cmp, the order the code's own binary searches use (-0.0 < +0.0 are distinct keys, NaNs are ordered by payload)
//@ assume: bounded stand-in: vector length fixed per harness (0..3), times are arbitrary f64 bit patterns (incl. NaN, infinities, signed zeros); std binary_search_by / Vec::insert are executed, not assumed
use super::*;
use std::cmp::Ordering;

fn lt(a: f64, b: f64) -> bool {
    a.total_cmp(&b) == Ordering::Less
}

// Plain index loops only (no iterator adapters / closures): they keep CBMC's formula small.
// $times: [f64; 3] of which the first $n are used; $v: the vector after `add`; $t: the added time;
// $payload_ok: expression in `i` telling whether v[i] carries the added point's payload
macro_rules! check_add {
    ($n:expr, $times:expr, $v:expr, $t:expr, |$i:ident| $payload_ok:expr) => {{
        let n: usize = $n;
        let m = $v.len();
        let mut existed = false;
        let mut k = 0;
        while k < n {
            if $times[k].total_cmp(&$t) == Ordering::Equal {
                existed = true;
            }
            k += 1;
        }
        assert!(m == n + if existed { 0 } else { 1 }, "C06 add inserts a new time or replaces an equal one");
        let mut k = 1;
        while k < m {
            assert!(lt($v[k - 1].time, $v[k].time), "C06 control points stay strictly ordered by time");
            k += 1;
        }
        let mut found = false;
        let mut $i = 0;
        while $i < m {
            if $v[$i].time.to_bits() == $t.to_bits() {
                assert!($payload_ok, "C06 the added point is stored at its time");
                found = true;
            }
            $i += 1;
        }
        assert!(found, "C06 the added point is present afterwards");
        let mut k = 0;
        while k < n {
            if $times[k].total_cmp(&$t) != Ordering::Equal {
                let mut kept = false;
                let mut q = 0;
                while q < m {
                    if $v[q].time.to_bits() == $times[k].to_bits() {
                        kept = true;
                    }
                    q += 1;
                }
                assert!(kept, "C06 add keeps every other control point");
            }
            k += 1;
        }
    }};
}

fn any_sorted_times(n: usize) -> [f64; 3] {
    let t: [f64; 3] = [kani::any(), kani::any(), kani::any()];
    if n >= 2 {
        kani::assume(lt(t[0], t[1]));
    }
    if n >= 3 {
        kani::assume(lt(t[1], t[2]));
    }
    t
}

macro_rules! timing {
    ($name:ident, $l:expr) => {
        #[kani::proof]
        #[kani::unwind(6)]
        fn $name() {
            let times = any_sorted_times($l);
            let mut st = <BeatmapState as DecodeState>::create(14);
            let mut k = 0;
            while k < $l {
                st.timing_points.push(TimingPoint { time: times[k], beat_len: 500.0 });
                k += 1;
            }
            let t: f64 = kani::any();
            TimingPoint { time: t, beat_len: 321.0 }.add(&mut st);
            check_add!($l, times, st.timing_points, t, |i| st.timing_points[i].beat_len == 321.0);
            std::mem::forget(st);
        }
    };
}
macro_rules! difficulty {
    ($name:ident, $l:expr) => {
        #[kani::proof]
        #[kani::unwind(6)]
        fn $name() {
            let times = any_sorted_times($l);
            let mut st = <BeatmapState as DecodeState>::create(14);
            let mut k = 0;
            while k < $l {
                st.difficulty_points.push(DifficultyPoint { time: times[k], slider_velocity: 1.0, bpm_multiplier: 1.0, generate_ticks: true });
                k += 1;
            }
            let t: f64 = kani::any();
            DifficultyPoint { time: t, slider_velocity: 2.5, bpm_multiplier: 1.0, generate_ticks: false }.add(&mut st);
            check_add!($l, times, st.difficulty_points, t, |i| st.difficulty_points[i].slider_velocity == 2.5 && !st.difficulty_points[i].generate_ticks);
            std::mem::forget(st);
        }
    };
}
macro_rules! effect {
    ($name:ident, $l:expr) => {
        #[kani::proof]
        #[kani::unwind(6)]
        fn $name() {
            let times = any_sorted_times($l);
            let mut points: Vec<EffectPoint> = Vec::with_capacity(4);
            let mut k = 0;
            while k < $l {
                points.push(EffectPoint { time: times[k], kiai: false, scroll_speed: 1.0 });
                k += 1;
            }
            let t: f64 = kani::any();
            <EffectPoint as ControlPoint<Vec<EffectPoint>>>::add(EffectPoint { time: t, kiai: true, scroll_speed: 3.0 }, &mut points);
            check_add!($l, times, points, t, |i| points[i].kiai && points[i].scroll_speed == 3.0);
        }
    };
}

//@ obl: id=U2.timing.add.l0 harness=u2_timing_add_l0 props=C06 tier=quick kind=bounded
//@ fns: <TimingPoint as ControlPoint<BeatmapState>>::add
//@ bound: bounded: existing vector length 0; all f64 bit patterns for times
//@ clause: pre: timing points strictly increasing under total_cmp. post: still strictly increasing; the new point is stored at its time; every other point kept; len grows by one unless an equal time existed (then replaced)
timing!(u2_timing_add_l0, 0);
//@ obl: id=U2.timing.add.l2 harness=u2_timing_add_l2 props=C06 tier=quick kind=bounded
//@ fns: <TimingPoint as ControlPoint<BeatmapState>>::add
//@ bound: bounded: existing vector length 2
//@ clause: as U2.timing.add.l0
timing!(u2_timing_add_l2, 2);
//@ obl: id=U2.timing.add.l3 harness=u2_timing_add_l3 props=C06 tier=thorough kind=bounded
//@ fns: <TimingPoint as ControlPoint<BeatmapState>>::add
//@ bound: bounded: existing vector length 3
//@ clause: as U2.timing.add.l0
timing!(u2_timing_add_l3, 3);
//@ obl: id=U2.difficulty.add.l0 harness=u2_difficulty_add_l0 props=C06 tier=quick kind=bounded
//@ fns: <DifficultyPoint as ControlPoint<BeatmapState>>::add
//@ bound: bounded: existing vector length 0
//@ clause: as U2.timing.add.l0 for difficulty points
difficulty!(u2_difficulty_add_l0, 0);
//@ obl: id=U2.difficulty.add.l2 harness=u2_difficulty_add_l2 props=C06 tier=quick kind=bounded
//@ fns: <DifficultyPoint as ControlPoint<BeatmapState>>::add
//@ bound: bounded: existing vector length 2
//@ clause: as U2.timing.add.l0 for difficulty points
difficulty!(u2_difficulty_add_l2, 2);
//@ obl: id=U2.difficulty.add.l3 harness=u2_difficulty_add_l3 props=C06 tier=thorough kind=bounded
//@ fns: <DifficultyPoint as ControlPoint<BeatmapState>>::add
//@ bound: bounded: existing vector length 3
//@ clause: as U2.timing.add.l0 for difficulty points
difficulty!(u2_difficulty_add_l3, 3);
//@ obl: id=U2.effect.add.l0 harness=u2_effect_add_l0 props=C06,C19 tier=quick kind=bounded
//@ fns: <EffectPoint as ControlPoint<Vec<EffectPoint>>>::add
//@ bound: bounded: existing vector length 0
//@ clause: as U2.timing.add.l0 for effect points (also used by the taiko converter)
effect!(u2_effect_add_l0, 0);
//@ obl: id=U2.effect.add.l2 harness=u2_effect_add_l2 props=C06,C19 tier=quick kind=bounded
//@ fns: <EffectPoint as ControlPoint<Vec<EffectPoint>>>::add
//@ bound: bounded: existing vector length 2
//@ clause: as U2.timing.add.l0 for effect points
effect!(u2_effect_add_l2, 2);
//@ obl: id=U2.effect.add.l3 harness=u2_effect_add_l3 props=C06,C19 tier=thorough kind=bounded
//@ fns: <EffectPoint as ControlPoint<Vec<EffectPoint>>>::add
//@ bound: bounded: existing vector length 3
//@ clause: as U2.timing.add.l0 for effect points
effect!(u2_effect_add_l3, 3);

//@ obl: id=U3.decode.clamps harness=u3_control_point_clamps props=C06 tier=quick kind=proof
//@ fns: TimingPoint::new, DifficultyPoint::new
//@ bound: loop-free; all 2^64 bit patterns of every argument
//@ clause: for non-NaN inputs TimingPoint::new clamps beat_len to [6, 60000]; DifficultyPoint::new clamps slider velocity to [0.1, 10] and the bpm multiplier to [0.1, 100]; generate_ticks is false exactly for NaN beat length; the time is stored unchanged
#[kani::proof]
fn u3_control_point_clamps() {
    let (time, beat_len, speed): (f64, f64, f64) = (kani::any(), kani::any(), kani::any());
    let t = TimingPoint::new(time, beat_len);
    assert!(t.time.to_bits() == time.to_bits(), "C06 timing point time kept");
    if !beat_len.is_nan() {
        assert!(t.beat_len >= 6.0 && t.beat_len <= 60_000.0, "C06 beat length clamped to [6, 60000]");
    }
    let d = DifficultyPoint::new(time, beat_len, speed);
    assert!(d.time.to_bits() == time.to_bits(), "C06 difficulty point time kept");
    if !speed.is_nan() {
        assert!(d.slider_velocity >= 0.1 && d.slider_velocity <= 10.0, "C06 slider velocity clamped to [0.1, 10]");
    }
    assert!(d.bpm_multiplier >= 0.1 && d.bpm_multiplier <= 100.0, "C06 bpm multiplier inside [0.1, 100]");
    assert!(d.generate_ticks == !beat_len.is_nan(), "C06 generate_ticks false exactly for NaN beat length");
}

//@ obl: id=U4.decode.point_split harness=u4_point_split_cleared props=C11 tier=quick kind=proof
//@ fns: BeatmapState::point_split
//@ bound: loop-free apart from the two-element extend (unwind 5 certified); the closure result (success / failure) is symbolic
//@ clause: the borrowed-pointer scratch buffer is empty again when point_split returns - whether the closure succeeds or fails - so no `*const str` into a finished line survives; inside the closure the slice has exactly the pushed strings
#[kani::proof]
#[kani::unwind(5)]
fn u4_point_split_cleared() {
    let mut st = <BeatmapState as DecodeState>::create(14);
    let fail: bool = kani::any();
    let parts = ["12:34", "56:78"];
    let r: Result<(), ParseBeatmapError> = st.point_split(parts.into_iter(), |this, split| {
        assert!(split.len() == 2 && this.point_split.len() == 2, "C11 the closure sees exactly the strings of this line");
        assert!(split[0].len() == 5 && split[1].len() == 5, "C11 pointers are read back as the pushed strings");
        if fail {
            Err(ParseBeatmapError::InvalidHitObjectLine)
        } else {
            Ok(())
        }
    });
    assert!(r.is_err() == fail, "C11 closure result is passed through");
    assert!(st.point_split.is_empty(), "C11 scratch buffer is cleared after every use, including failed lines");
    std::mem::forget(st);
}

fn any_game_mode() -> GameMode {
    let k: u8 = kani::any();
    match k % 4 {
        0 => GameMode::Osu,
        1 => GameMode::Taiko,
        2 => GameMode::Catch,
        _ => GameMode::Mania,
    }
}

//@ obl: id=U3.decode.map_clamps harness=u3_decoded_map_clamps props=C06 tier=quick kind=proof
//@ fns: <Beatmap as From<BeatmapState>>::from (clamp block)
//@ bound: loop-free on an object-free state (unwind 4 certifies the empty sort loops); every f32 / f64 bit pattern of the six difficulty fields, all four modes
//@ clause: every decoded map has, for non-NaN inputs, HP / OD / AR in [0,10], CS in [0,10] (mania: [1,18]), slider multiplier in [0.4, 3.6] and tick rate in [0.5, 8]; the mode is the decoded one and a decoded map is never marked as a convert
#[kani::proof]
#[kani::unwind(4)]
fn u3_decoded_map_clamps() {
    let mut st = <BeatmapState as DecodeState>::create(14);
    st.mode = any_game_mode();
    let (hp, cs, od, ar): (f32, f32, f32, f32) = (kani::any(), kani::any(), kani::any(), kani::any());
    let (sm, tr): (f64, f64) = (kani::any(), kani::any());
    st.difficulty.hp_drain_rate = hp;
    st.difficulty.circle_size = cs;
    st.difficulty.overall_difficulty = od;
    st.difficulty.approach_rate = ar;
    st.difficulty.slider_multiplier = sm;
    st.difficulty.slider_tick_rate = tr;
    let mode = st.mode;
    let map = Beatmap::from(st);
    assert!(map.mode == mode && !map.is_convert, "C06 mode kept, decoded maps are not converts");
    if !hp.is_nan() {
        assert!(map.hp >= 0.0 && map.hp <= 10.0, "C06 HP clamped to [0,10]");
    }
    if !od.is_nan() {
        assert!(map.od >= 0.0 && map.od <= 10.0, "C06 OD clamped to [0,10]");
    }
    if !ar.is_nan() {
        assert!(map.ar >= 0.0 && map.ar <= 10.0, "C06 AR clamped to [0,10]");
    }
    if !cs.is_nan() {
        if mode == GameMode::Mania {
            assert!(map.cs >= 1.0 && map.cs <= 18.0, "C06 mania key count clamped to [1,18]");
        } else {
            assert!(map.cs >= 0.0 && map.cs <= 10.0, "C06 CS clamped to [0,10]");
        }
    }
    if !sm.is_nan() {
        assert!(map.slider_multiplier >= 0.4 && map.slider_multiplier <= 3.6, "C06 slider multiplier clamped to [0.4,3.6]");
    }
    if !tr.is_nan() {
        assert!(map.slider_tick_rate >= 0.5 && map.slider_tick_rate <= 8.0, "C06 slider tick rate clamped to [0.5,8]");
    }
    std::mem::forget(map);
}

// NOTE: an obligation on the tandem-sort call site of `From<BeatmapState>` (3 objects of symbolic order: sorted, one sound per
// object, sounds stay paired) did not finish within 15 min (moving HitObject enums through std's sort); not registered.
// The sorter itself is proved in Verus (U1.tandem.*) and exercised with new_stable on 5 keys (U1.tandem.kani.n5).
