//@ unit: strainsvec
//@ target: src/util/strains_vec.rs
//@ inject-above: /// Private module to hide internal fields.
//@ modpath: util::strains_vec::inner
//@ assume: default feature set (compact StrainsVec); the reference model is the raw_strains semantics: a plain Vec<f64> of the pushed values
//@ assume: A-NONNEG: the compact list equals the plain list only for pushed values v >= +0.0 or +NaN; negative / -0.0 / -NaN inputs are stored as 0.0 by design (skills only push non-negative peaks - unverified)
use super::entry::StrainsEntry;
use super::*;

const SIGN: u64 = 1 << 63;

//@ obl: id=U4.entry.view harness=u4_entry_view props=C11,C10 tier=quick kind=proof
//@ fns: StrainsEntry::{new_value,new_zero,is_zero,is_value,value,try_as_value,zero_count,incr_zero_count,decr_zero_count,as_value_mut}
//@ bound: loop-free; all 2^64 bit patterns of the union
//@ clause: the sign bit is the discriminant: is_zero == sign bit set, is_value == !is_zero; value() returns the stored bits; try_as_value is Some(value) exactly for value entries; zero_count is the low 63 bits; new_zero is a zero run of length 1; incr/decr change exactly the run length (no borrow into the discriminant for 0 < count < 2^63-1); every unsafe union read is of the field the discriminant says is live
#[kani::proof]
fn u4_entry_view() {
    let bits: u64 = kani::any();
    // SAFETY (harness): new_value only stores the bits; all patterns are explored on purpose
    let e = unsafe { StrainsEntry::new_value(f64::from_bits(bits)) };
    assert!(e.is_zero() == (bits & SIGN != 0), "C11 discriminant of the union is the sign bit");
    assert!(e.is_value() == !e.is_zero(), "C11 is_value is the complement of is_zero");
    assert!(e.value().to_bits() == bits, "C11 value() returns the stored bits");
    match e.try_as_value() {
        Some(v) => assert!(e.is_value() && v.to_bits() == bits, "C11 try_as_value reads the f64 field only for value entries"),
        None => assert!(e.is_zero(), "C11 try_as_value is None exactly for zero runs"),
    }
    assert!(e.zero_count() == bits & !SIGN, "C11 zero_count is the low 63 bits");
    let z = StrainsEntry::new_zero();
    assert!(z.is_zero() && z.zero_count() == 1, "C11 new_zero is a zero run of length one");
    if e.is_zero() {
        let c = e.zero_count();
        if c < (u64::MAX >> 1) {
            let mut f = e;
            f.incr_zero_count();
            assert!(f.is_zero() && f.zero_count() == c + 1, "C11 incr_zero_count adds one to the run and keeps the discriminant");
        }
        if c > 0 {
            let mut f = e;
            f.decr_zero_count();
            assert!(f.is_zero() && f.zero_count() == c - 1, "C11 decr_zero_count removes one from the run and keeps the discriminant");
        }
    } else {
        let mut f = e;
        *f.as_value_mut() = 1.5;
        assert!(f.is_value() && f.value() == 1.5, "C11 as_value_mut writes the f64 field of a value entry");
    }
}

//@ obl: id=U4.push.guard harness=u4_push_guard props=C11,C10 tier=quick kind=proof
//@ fns: StrainsVec::push, StrainsVec::with_capacity, StrainsVec::len, StrainsEntry::new_value
//@ bound: loop-free (one push on an empty list); all 2^64 bit patterns of the pushed value
//@ clause: push(v) stores v as a value entry exactly when v.to_bits() > 0 and the sign bit is clear - which is new_value's safety precondition - and otherwise records one zero; len() == 1 either way
#[kani::proof]
#[kani::unwind(3)]
fn u4_push_guard() {
    let v: f64 = kani::any();
    let mut sv = StrainsVec::with_capacity(4);
    sv.push(v);
    assert!(sv.len() == 1 && sv.inner.len() == 1, "C10 one push, one element");
    let e = sv.inner[0];
    if v.to_bits() > 0 && v.to_bits() & SIGN == 0 {
        assert!(e.is_value() && e.value().to_bits() == v.to_bits(), "C11 positive values are stored verbatim as value entries");
    } else {
        assert!(e.is_zero() && e.zero_count() == 1, "C11 everything else (zero, negative, -NaN) is counted as one zero, never stored through the f64 field");
    }
    std::mem::forget(sv);
}

/// value of class `pos` (true: stored verbatim; false: counted as zero)
fn any_of_class(pos: bool) -> f64 {
    let v: f64 = kani::any();
    let is_pos = v.to_bits() > 0 && v.to_bits() & SIGN == 0;
    kani::assume(is_pos == pos);
    v
}

/// what the plain Vec<f64> (raw_strains) holds for a pushed value under A-NONNEG
fn model(v: f64, pos: bool) -> f64 {
    if pos {
        v
    } else {
        0.0
    }
}

fn same(a: f64, b: f64) -> bool {
    a.to_bits() == b.to_bits()
}

/// representation invariant of the compact list
fn well_formed(sv: &StrainsVec) -> bool {
    let mut total: u64 = 0;
    let mut prev_zero = false;
    let mut i = 0;
    while i < sv.inner.len() {
        let e = sv.inner[i];
        if e.is_zero() {
            if prev_zero || e.zero_count() == 0 {
                return false;
            }
            total += e.zero_count();
            prev_zero = true;
        } else {
            total += 1;
            prev_zero = false;
        }
        i += 1;
    }
    total == sv.len as u64
}

fn build(pattern: &[bool], vals: &mut [f64; 4]) -> StrainsVec {
    let mut sv = StrainsVec::with_capacity(4);
    let mut i = 0;
    while i < pattern.len() {
        vals[i] = any_of_class(pattern[i]);
        sv.push(vals[i]);
        i += 1;
    }
    sv
}

fn check_push_len_iter(pattern: &[bool]) {
    let mut vals = [0.0f64; 4];
    let sv = build(pattern, &mut vals);
    let k = pattern.len();
    assert!(sv.len() == k, "C10 len() == number of pushes");
    assert!(well_formed(&sv), "C11 representation invariant: run lengths add up to len, no empty or adjacent zero runs");
    let mut it = sv.iter();
    assert!(it.len() == k && it.size_hint() == (k, Some(k)), "C10 iter().len() == len()");
    let mut i = 0;
    while i < k {
        match it.next() {
            Some(x) => assert!(same(x, model(vals[i], pattern[i])), "C10 iter() yields exactly the pushed values (zeros re-expanded)"),
            None => assert!(false, "C10 iter() yields len() values"),
        }
        assert!(it.len() == k - i - 1, "C10 iterator length counts down");
        i += 1;
    }
    assert!(it.next().is_none(), "C10 iter() ends after len() values");
    std::mem::forget(sv);
}

fn check_retain(pattern: &[bool]) {
    let mut vals = [0.0f64; 4];
    let mut sv = build(pattern, &mut vals);
    sv.retain_non_zero();
    // the positive values, in order
    let mut j = 0;
    let mut i = 0;
    while i < pattern.len() {
        if pattern[i] {
            assert!(j < sv.inner.len() && sv.inner[j].is_value() && same(sv.inner[j].value(), vals[i]), "C16 retain_non_zero keeps exactly the positive values in order");
            j += 1;
        }
        i += 1;
    }
    assert!(sv.inner.len() == j, "C11 retain_non_zero leaves no zero run behind (precondition of transmute_into_vec)");
    // transmute_into_vec: same allocation reinterpreted, bit-identical values
    // SAFETY: no zero entries are left, as just asserted
    let v = unsafe { sv.transmute_into_vec() };
    assert!(v.len() == j, "C11 transmute_into_vec keeps the length");
    let mut q = 0;
    let mut i = 0;
    while i < pattern.len() {
        if pattern[i] {
            assert!(same(v[q], vals[i]), "C16 transmute_into_vec yields the retained values bit-identically");
            q += 1;
        }
        i += 1;
    }
    std::mem::forget(v);
}

fn check_sum(pattern: &[bool]) {
    let mut vals = [0.0f64; 4];
    let sv = build(pattern, &mut vals);
    // raw semantics: fold of all elements from the additive identity std uses for f64 (-0.0); zeros do not change it
    let mut expect = -0.0f64;
    let mut i = 0;
    while i < pattern.len() {
        if pattern[i] {
            kani::assume(!vals[i].is_nan());
            expect += vals[i];
        }
        i += 1;
    }
    let got = sv.sum();
    assert!(same(got, expect) || (got == 0.0 && expect == 0.0), "C16 sum() equals the sum of the pushed values (zeros contribute nothing)");
    std::mem::forget(sv);
}

macro_rules! pat {
    ($name:ident, $f:ident, [$($p:expr),*]) => {
        #[kani::proof]
        #[kani::unwind(7)]
        fn $name() {
            $f(&[$($p),*]);
        }
    };
}

//@ obl: id=U5.iter.empty harness=u5_iter_empty props=C10,C11,C16 tier=quick kind=bounded
//@ fns: StrainsVec::push, StrainsVec::len, StrainsVec::iter, StrainsIter::next, StrainsIter::len
//@ bound: bounded: 0 pushes with class pattern empty (p = positive value stored verbatim, z = counted as zero); values symbolic over their whole class (all positive f64 incl. subnormals, +inf, +NaN / all of -x, +-0, -NaN)
//@ clause: after the pushes len()==k, the representation invariant holds, and iter() yields exactly the sequence a plain Vec<f64> would hold (zeros re-expanded one by one), with exact len()/size_hint(); no UB under Kani's memory model
pat!(u5_iter_empty, check_push_len_iter, []);

//@ obl: id=U5.iter.p harness=u5_iter_p props=C10,C11,C16 tier=quick kind=bounded
//@ fns: StrainsVec::push, StrainsVec::len, StrainsVec::iter, StrainsIter::next, StrainsIter::len
//@ bound: bounded: 1 pushes with class pattern p (p = positive value stored verbatim, z = counted as zero); values symbolic over their whole class (all positive f64 incl. subnormals, +inf, +NaN / all of -x, +-0, -NaN)
//@ clause: after the pushes len()==k, the representation invariant holds, and iter() yields exactly the sequence a plain Vec<f64> would hold (zeros re-expanded one by one), with exact len()/size_hint(); no UB under Kani's memory model
pat!(u5_iter_p, check_push_len_iter, [true]);

//@ obl: id=U5.iter.z harness=u5_iter_z props=C10,C11,C16 tier=quick kind=bounded
//@ fns: StrainsVec::push, StrainsVec::len, StrainsVec::iter, StrainsIter::next, StrainsIter::len
//@ bound: bounded: 1 pushes with class pattern z (p = positive value stored verbatim, z = counted as zero); values symbolic over their whole class (all positive f64 incl. subnormals, +inf, +NaN / all of -x, +-0, -NaN)
//@ clause: after the pushes len()==k, the representation invariant holds, and iter() yields exactly the sequence a plain Vec<f64> would hold (zeros re-expanded one by one), with exact len()/size_hint(); no UB under Kani's memory model
pat!(u5_iter_z, check_push_len_iter, [false]);

//@ obl: id=U5.iter.pp harness=u5_iter_pp props=C10,C11,C16 tier=quick kind=bounded
//@ fns: StrainsVec::push, StrainsVec::len, StrainsVec::iter, StrainsIter::next, StrainsIter::len
//@ bound: bounded: 2 pushes with class pattern pp (p = positive value stored verbatim, z = counted as zero); values symbolic over their whole class (all positive f64 incl. subnormals, +inf, +NaN / all of -x, +-0, -NaN)
//@ clause: after the pushes len()==k, the representation invariant holds, and iter() yields exactly the sequence a plain Vec<f64> would hold (zeros re-expanded one by one), with exact len()/size_hint(); no UB under Kani's memory model
pat!(u5_iter_pp, check_push_len_iter, [true, true]);

//@ obl: id=U5.iter.pz harness=u5_iter_pz props=C10,C11,C16 tier=quick kind=bounded
//@ fns: StrainsVec::push, StrainsVec::len, StrainsVec::iter, StrainsIter::next, StrainsIter::len
//@ bound: bounded: 2 pushes with class pattern pz (p = positive value stored verbatim, z = counted as zero); values symbolic over their whole class (all positive f64 incl. subnormals, +inf, +NaN / all of -x, +-0, -NaN)
//@ clause: after the pushes len()==k, the representation invariant holds, and iter() yields exactly the sequence a plain Vec<f64> would hold (zeros re-expanded one by one), with exact len()/size_hint(); no UB under Kani's memory model
pat!(u5_iter_pz, check_push_len_iter, [true, false]);

//@ obl: id=U5.iter.zp harness=u5_iter_zp props=C10,C11,C16 tier=quick kind=bounded
//@ fns: StrainsVec::push, StrainsVec::len, StrainsVec::iter, StrainsIter::next, StrainsIter::len
//@ bound: bounded: 2 pushes with class pattern zp (p = positive value stored verbatim, z = counted as zero); values symbolic over their whole class (all positive f64 incl. subnormals, +inf, +NaN / all of -x, +-0, -NaN)
//@ clause: after the pushes len()==k, the representation invariant holds, and iter() yields exactly the sequence a plain Vec<f64> would hold (zeros re-expanded one by one), with exact len()/size_hint(); no UB under Kani's memory model
pat!(u5_iter_zp, check_push_len_iter, [false, true]);

//@ obl: id=U5.iter.zz harness=u5_iter_zz props=C10,C11,C16 tier=quick kind=bounded
//@ fns: StrainsVec::push, StrainsVec::len, StrainsVec::iter, StrainsIter::next, StrainsIter::len
//@ bound: bounded: 2 pushes with class pattern zz (p = positive value stored verbatim, z = counted as zero); values symbolic over their whole class (all positive f64 incl. subnormals, +inf, +NaN / all of -x, +-0, -NaN)
//@ clause: after the pushes len()==k, the representation invariant holds, and iter() yields exactly the sequence a plain Vec<f64> would hold (zeros re-expanded one by one), with exact len()/size_hint(); no UB under Kani's memory model
pat!(u5_iter_zz, check_push_len_iter, [false, false]);

//@ obl: id=U5.iter.ppp harness=u5_iter_ppp props=C10,C11,C16 tier=quick kind=bounded
//@ fns: StrainsVec::push, StrainsVec::len, StrainsVec::iter, StrainsIter::next, StrainsIter::len
//@ bound: bounded: 3 pushes with class pattern ppp (p = positive value stored verbatim, z = counted as zero); values symbolic over their whole class (all positive f64 incl. subnormals, +inf, +NaN / all of -x, +-0, -NaN)
//@ clause: after the pushes len()==k, the representation invariant holds, and iter() yields exactly the sequence a plain Vec<f64> would hold (zeros re-expanded one by one), with exact len()/size_hint(); no UB under Kani's memory model
pat!(u5_iter_ppp, check_push_len_iter, [true, true, true]);

//@ obl: id=U5.iter.ppz harness=u5_iter_ppz props=C10,C11,C16 tier=quick kind=bounded
//@ fns: StrainsVec::push, StrainsVec::len, StrainsVec::iter, StrainsIter::next, StrainsIter::len
//@ bound: bounded: 3 pushes with class pattern ppz (p = positive value stored verbatim, z = counted as zero); values symbolic over their whole class (all positive f64 incl. subnormals, +inf, +NaN / all of -x, +-0, -NaN)
//@ clause: after the pushes len()==k, the representation invariant holds, and iter() yields exactly the sequence a plain Vec<f64> would hold (zeros re-expanded one by one), with exact len()/size_hint(); no UB under Kani's memory model
pat!(u5_iter_ppz, check_push_len_iter, [true, true, false]);

//@ obl: id=U5.iter.pzp harness=u5_iter_pzp props=C10,C11,C16 tier=quick kind=bounded
//@ fns: StrainsVec::push, StrainsVec::len, StrainsVec::iter, StrainsIter::next, StrainsIter::len
//@ bound: bounded: 3 pushes with class pattern pzp (p = positive value stored verbatim, z = counted as zero); values symbolic over their whole class (all positive f64 incl. subnormals, +inf, +NaN / all of -x, +-0, -NaN)
//@ clause: after the pushes len()==k, the representation invariant holds, and iter() yields exactly the sequence a plain Vec<f64> would hold (zeros re-expanded one by one), with exact len()/size_hint(); no UB under Kani's memory model
pat!(u5_iter_pzp, check_push_len_iter, [true, false, true]);

//@ obl: id=U5.iter.pzz harness=u5_iter_pzz props=C10,C11,C16 tier=quick kind=bounded
//@ fns: StrainsVec::push, StrainsVec::len, StrainsVec::iter, StrainsIter::next, StrainsIter::len
//@ bound: bounded: 3 pushes with class pattern pzz (p = positive value stored verbatim, z = counted as zero); values symbolic over their whole class (all positive f64 incl. subnormals, +inf, +NaN / all of -x, +-0, -NaN)
//@ clause: after the pushes len()==k, the representation invariant holds, and iter() yields exactly the sequence a plain Vec<f64> would hold (zeros re-expanded one by one), with exact len()/size_hint(); no UB under Kani's memory model
pat!(u5_iter_pzz, check_push_len_iter, [true, false, false]);

//@ obl: id=U5.iter.zpp harness=u5_iter_zpp props=C10,C11,C16 tier=quick kind=bounded
//@ fns: StrainsVec::push, StrainsVec::len, StrainsVec::iter, StrainsIter::next, StrainsIter::len
//@ bound: bounded: 3 pushes with class pattern zpp (p = positive value stored verbatim, z = counted as zero); values symbolic over their whole class (all positive f64 incl. subnormals, +inf, +NaN / all of -x, +-0, -NaN)
//@ clause: after the pushes len()==k, the representation invariant holds, and iter() yields exactly the sequence a plain Vec<f64> would hold (zeros re-expanded one by one), with exact len()/size_hint(); no UB under Kani's memory model
pat!(u5_iter_zpp, check_push_len_iter, [false, true, true]);

//@ obl: id=U5.iter.zpz harness=u5_iter_zpz props=C10,C11,C16 tier=quick kind=bounded
//@ fns: StrainsVec::push, StrainsVec::len, StrainsVec::iter, StrainsIter::next, StrainsIter::len
//@ bound: bounded: 3 pushes with class pattern zpz (p = positive value stored verbatim, z = counted as zero); values symbolic over their whole class (all positive f64 incl. subnormals, +inf, +NaN / all of -x, +-0, -NaN)
//@ clause: after the pushes len()==k, the representation invariant holds, and iter() yields exactly the sequence a plain Vec<f64> would hold (zeros re-expanded one by one), with exact len()/size_hint(); no UB under Kani's memory model
pat!(u5_iter_zpz, check_push_len_iter, [false, true, false]);

//@ obl: id=U5.iter.zzp harness=u5_iter_zzp props=C10,C11,C16 tier=quick kind=bounded
//@ fns: StrainsVec::push, StrainsVec::len, StrainsVec::iter, StrainsIter::next, StrainsIter::len
//@ bound: bounded: 3 pushes with class pattern zzp (p = positive value stored verbatim, z = counted as zero); values symbolic over their whole class (all positive f64 incl. subnormals, +inf, +NaN / all of -x, +-0, -NaN)
//@ clause: after the pushes len()==k, the representation invariant holds, and iter() yields exactly the sequence a plain Vec<f64> would hold (zeros re-expanded one by one), with exact len()/size_hint(); no UB under Kani's memory model
pat!(u5_iter_zzp, check_push_len_iter, [false, false, true]);

//@ obl: id=U5.iter.zzz harness=u5_iter_zzz props=C10,C11,C16 tier=quick kind=bounded
//@ fns: StrainsVec::push, StrainsVec::len, StrainsVec::iter, StrainsIter::next, StrainsIter::len
//@ bound: bounded: 3 pushes with class pattern zzz (p = positive value stored verbatim, z = counted as zero); values symbolic over their whole class (all positive f64 incl. subnormals, +inf, +NaN / all of -x, +-0, -NaN)
//@ clause: after the pushes len()==k, the representation invariant holds, and iter() yields exactly the sequence a plain Vec<f64> would hold (zeros re-expanded one by one), with exact len()/size_hint(); no UB under Kani's memory model
pat!(u5_iter_zzz, check_push_len_iter, [false, false, false]);

//@ obl: id=U5.retain.p harness=u5_retain_p props=C11,C16,C10 tier=quick kind=bounded
//@ fns: StrainsVec::retain_non_zero, StrainsVec::transmute_into_vec
//@ bound: bounded: 1 pushes with class pattern p; values symbolic over their class
//@ clause: retain_non_zero keeps exactly the positive values in order and leaves no zero run (the safety precondition of transmute_into_vec); transmute_into_vec returns them bit-identically; no UB under Kani's memory model (allocation bounds, transmute size/align)
pat!(u5_retain_p, check_retain, [true]);

//@ obl: id=U5.retain.z harness=u5_retain_z props=C11,C16,C10 tier=quick kind=bounded
//@ fns: StrainsVec::retain_non_zero, StrainsVec::transmute_into_vec
//@ bound: bounded: 1 pushes with class pattern z; values symbolic over their class
//@ clause: retain_non_zero keeps exactly the positive values in order and leaves no zero run (the safety precondition of transmute_into_vec); transmute_into_vec returns them bit-identically; no UB under Kani's memory model (allocation bounds, transmute size/align)
pat!(u5_retain_z, check_retain, [false]);

//@ obl: id=U5.retain.pp harness=u5_retain_pp props=C11,C16,C10 tier=quick kind=bounded
//@ fns: StrainsVec::retain_non_zero, StrainsVec::transmute_into_vec
//@ bound: bounded: 2 pushes with class pattern pp; values symbolic over their class
//@ clause: retain_non_zero keeps exactly the positive values in order and leaves no zero run (the safety precondition of transmute_into_vec); transmute_into_vec returns them bit-identically; no UB under Kani's memory model (allocation bounds, transmute size/align)
pat!(u5_retain_pp, check_retain, [true, true]);

//@ obl: id=U5.retain.pz harness=u5_retain_pz props=C11,C16,C10 tier=quick kind=bounded
//@ fns: StrainsVec::retain_non_zero, StrainsVec::transmute_into_vec
//@ bound: bounded: 2 pushes with class pattern pz; values symbolic over their class
//@ clause: retain_non_zero keeps exactly the positive values in order and leaves no zero run (the safety precondition of transmute_into_vec); transmute_into_vec returns them bit-identically; no UB under Kani's memory model (allocation bounds, transmute size/align)
pat!(u5_retain_pz, check_retain, [true, false]);

//@ obl: id=U5.retain.zp harness=u5_retain_zp props=C11,C16,C10 tier=quick kind=bounded
//@ fns: StrainsVec::retain_non_zero, StrainsVec::transmute_into_vec
//@ bound: bounded: 2 pushes with class pattern zp; values symbolic over their class
//@ clause: retain_non_zero keeps exactly the positive values in order and leaves no zero run (the safety precondition of transmute_into_vec); transmute_into_vec returns them bit-identically; no UB under Kani's memory model (allocation bounds, transmute size/align)
pat!(u5_retain_zp, check_retain, [false, true]);

//@ obl: id=U5.retain.zz harness=u5_retain_zz props=C11,C16,C10 tier=quick kind=bounded
//@ fns: StrainsVec::retain_non_zero, StrainsVec::transmute_into_vec
//@ bound: bounded: 2 pushes with class pattern zz; values symbolic over their class
//@ clause: retain_non_zero keeps exactly the positive values in order and leaves no zero run (the safety precondition of transmute_into_vec); transmute_into_vec returns them bit-identically; no UB under Kani's memory model (allocation bounds, transmute size/align)
pat!(u5_retain_zz, check_retain, [false, false]);

//@ obl: id=U5.retain.ppp harness=u5_retain_ppp props=C11,C16,C10 tier=quick kind=bounded
//@ fns: StrainsVec::retain_non_zero, StrainsVec::transmute_into_vec
//@ bound: bounded: 3 pushes with class pattern ppp; values symbolic over their class
//@ clause: retain_non_zero keeps exactly the positive values in order and leaves no zero run (the safety precondition of transmute_into_vec); transmute_into_vec returns them bit-identically; no UB under Kani's memory model (allocation bounds, transmute size/align)
pat!(u5_retain_ppp, check_retain, [true, true, true]);

//@ obl: id=U5.retain.ppz harness=u5_retain_ppz props=C11,C16,C10 tier=quick kind=bounded
//@ fns: StrainsVec::retain_non_zero, StrainsVec::transmute_into_vec
//@ bound: bounded: 3 pushes with class pattern ppz; values symbolic over their class
//@ clause: retain_non_zero keeps exactly the positive values in order and leaves no zero run (the safety precondition of transmute_into_vec); transmute_into_vec returns them bit-identically; no UB under Kani's memory model (allocation bounds, transmute size/align)
pat!(u5_retain_ppz, check_retain, [true, true, false]);

//@ obl: id=U5.retain.pzp harness=u5_retain_pzp props=C11,C16,C10 tier=quick kind=bounded
//@ fns: StrainsVec::retain_non_zero, StrainsVec::transmute_into_vec
//@ bound: bounded: 3 pushes with class pattern pzp; values symbolic over their class
//@ clause: retain_non_zero keeps exactly the positive values in order and leaves no zero run (the safety precondition of transmute_into_vec); transmute_into_vec returns them bit-identically; no UB under Kani's memory model (allocation bounds, transmute size/align)
pat!(u5_retain_pzp, check_retain, [true, false, true]);

//@ obl: id=U5.retain.pzz harness=u5_retain_pzz props=C11,C16,C10 tier=quick kind=bounded
//@ fns: StrainsVec::retain_non_zero, StrainsVec::transmute_into_vec
//@ bound: bounded: 3 pushes with class pattern pzz; values symbolic over their class
//@ clause: retain_non_zero keeps exactly the positive values in order and leaves no zero run (the safety precondition of transmute_into_vec); transmute_into_vec returns them bit-identically; no UB under Kani's memory model (allocation bounds, transmute size/align)
pat!(u5_retain_pzz, check_retain, [true, false, false]);

//@ obl: id=U5.retain.zpp harness=u5_retain_zpp props=C11,C16,C10 tier=quick kind=bounded
//@ fns: StrainsVec::retain_non_zero, StrainsVec::transmute_into_vec
//@ bound: bounded: 3 pushes with class pattern zpp; values symbolic over their class
//@ clause: retain_non_zero keeps exactly the positive values in order and leaves no zero run (the safety precondition of transmute_into_vec); transmute_into_vec returns them bit-identically; no UB under Kani's memory model (allocation bounds, transmute size/align)
pat!(u5_retain_zpp, check_retain, [false, true, true]);

//@ obl: id=U5.retain.zpz harness=u5_retain_zpz props=C11,C16,C10 tier=quick kind=bounded
//@ fns: StrainsVec::retain_non_zero, StrainsVec::transmute_into_vec
//@ bound: bounded: 3 pushes with class pattern zpz; values symbolic over their class
//@ clause: retain_non_zero keeps exactly the positive values in order and leaves no zero run (the safety precondition of transmute_into_vec); transmute_into_vec returns them bit-identically; no UB under Kani's memory model (allocation bounds, transmute size/align)
pat!(u5_retain_zpz, check_retain, [false, true, false]);

//@ obl: id=U5.retain.zzp harness=u5_retain_zzp props=C11,C16,C10 tier=quick kind=bounded
//@ fns: StrainsVec::retain_non_zero, StrainsVec::transmute_into_vec
//@ bound: bounded: 3 pushes with class pattern zzp; values symbolic over their class
//@ clause: retain_non_zero keeps exactly the positive values in order and leaves no zero run (the safety precondition of transmute_into_vec); transmute_into_vec returns them bit-identically; no UB under Kani's memory model (allocation bounds, transmute size/align)
pat!(u5_retain_zzp, check_retain, [false, false, true]);

//@ obl: id=U5.retain.zzz harness=u5_retain_zzz props=C11,C16,C10 tier=quick kind=bounded
//@ fns: StrainsVec::retain_non_zero, StrainsVec::transmute_into_vec
//@ bound: bounded: 3 pushes with class pattern zzz; values symbolic over their class
//@ clause: retain_non_zero keeps exactly the positive values in order and leaves no zero run (the safety precondition of transmute_into_vec); transmute_into_vec returns them bit-identically; no UB under Kani's memory model (allocation bounds, transmute size/align)
pat!(u5_retain_zzz, check_retain, [false, false, false]);

//@ obl: id=U5.sum.pzp harness=u5_sum_pzp props=C16,C10 tier=quick kind=bounded
//@ fns: StrainsVec::sum
//@ bound: bounded: 3 pushes with class pattern pzp; positive values symbolic, non-NaN
//@ clause: sum() equals the left-to-right sum of the pushed values as a plain Vec<f64> computes it (flashlight rating)
pat!(u5_sum_pzp, check_sum, [true, false, true]);

//@ obl: id=U5.sum.zzp harness=u5_sum_zzp props=C16,C10 tier=quick kind=bounded
//@ fns: StrainsVec::sum
//@ bound: bounded: 3 pushes with class pattern zzp; positive values symbolic, non-NaN
//@ clause: sum() equals the left-to-right sum of the pushed values as a plain Vec<f64> computes it (flashlight rating)
pat!(u5_sum_zzp, check_sum, [false, false, true]);

//@ obl: id=U5.sum.pp harness=u5_sum_pp props=C16,C10 tier=quick kind=bounded
//@ fns: StrainsVec::sum
//@ bound: bounded: 2 pushes with class pattern pp; positive values symbolic, non-NaN
//@ clause: sum() equals the left-to-right sum of the pushed values as a plain Vec<f64> computes it (flashlight rating)
pat!(u5_sum_pp, check_sum, [true, true]);
