//@ unit: counts_taiko
//@ target: src/taiko/difficulty/mod.rs
//@ assume: the colour / rhythm preprocessors and TaikoDifficultyObject::new (float feature extraction) are replaced by stubs; they do not touch the counters. What is proved is the counting done by create_difficulty_objects itself (the closure inside its iterator chain), on the real function.
//@ assume: bounded stand-in: number of hit objects fixed per harness (0..3); hit / non-hit kinds and the passed_objects limit symbolic
use super::*;
use crate::model::hit_object::{HitObject, HitObjectKind, Spinner};
use crate::taiko::difficulty::color::color_data::ColorData;
use crate::taiko::difficulty::object::MonoIndex;
use crate::taiko::difficulty::rhythm::rhythm_data::RhythmData;
use crate::taiko::object::TaikoObject;
use crate::util::sync::RefCount;
use rosu_map::section::hit_objects::hit_samples::HitSoundType;
use rosu_map::util::Pos;

fn stub_preprocess(_objs: &TaikoDifficultyObjects) {}

fn stub_tdo_new(
    hit_object: &TaikoObject,
    _last_object: &TaikoObject,
    _clock_rate: f64,
    idx: usize,
    _map: &Beatmap,
    _global_slider_velocity: f64,
    _objects: &mut TaikoDifficultyObjects,
) -> RefCount<TaikoDifficultyObject> {
    RefCount::new(TaikoDifficultyObject {
        idx,
        delta_time: 250.0,
        start_time: hit_object.start_time,
        base_hit_type: hit_object.hit_type,
        mono_idx: MonoIndex::None,
        note_idx: 0,
        rhythm_data: RhythmData { same_rhythm_grouped_hit_objects: None, same_patterns_grouped_hit_objects: None, ratio: 1.0 },
        color_data: ColorData::default(),
        effective_bpm: 120.0,
    })
}

fn counted(n: usize) {
    let mut map = Beatmap::default();
    map.mode = GameMode::Taiko;
    let mut hits: u32 = 0;
    let mut is_hit = [false; 4];
    let mut i = 0;
    while i < n {
        let circle: bool = kani::any();
        is_hit[i] = circle;
        hits += u32::from(circle);
        let kind = if circle { HitObjectKind::Circle } else { HitObjectKind::Spinner(Spinner { duration: 100.0 }) };
        map.hit_objects.push(HitObject { pos: Pos::new(256.0, 192.0), start_time: 500.0 * i as f64, kind });
        map.hit_sounds.push(HitSoundType::default());
        i += 1;
    }
    let take: u32 = kani::any();
    let mods = GameMods::default();
    let (mut max_combo, mut n_diff) = (0u32, 0usize);
    let objs = DifficultyValues::create_difficulty_objects(&map, take, 1.0, &mut max_combo, &mut n_diff, &mods);
    assert!(max_combo == cmp::min(take, hits), "C14 taiko max combo == min(passed_objects, number of hits)");
    if take as usize >= n {
        assert!(max_combo == hits, "C14 a limit at or above the object count counts every hit");
    }
    std::mem::forget(objs);
    std::mem::forget(map);
}

macro_rules! h {
    ($name:ident, $n:expr) => {
        #[kani::proof]
        #[kani::unwind(7)]
        #[kani::stub(ColorDifficultyPreprocessor::process_and_assign, stub_preprocess)]
        #[kani::stub(RhythmDifficultyPreprocessor::process_and_assign, stub_preprocess)]
        #[kani::stub(TaikoDifficultyObject::new, stub_tdo_new)]
        fn $name() {
            counted($n);
        }
    };
}

//@ obl: id=U11.taiko.count.n0 harness=u11_taiko_count_n0 props=C14 tier=quick kind=bounded
//@ fns: taiko DifficultyValues::create_difficulty_objects (counting closure of its iterator chain)
//@ bound: bounded: 0 hit objects; passed_objects limit any u32
//@ clause: max_combo == min(passed_objects, hits of the map): it never decreases as the limit grows and any limit above the total gives the unlimited value; taiko max combo equals the number of hits (spinners / drum rolls do not count)
h!(u11_taiko_count_n0, 0);
//@ obl: id=U11.taiko.count.n1 harness=u11_taiko_count_n1 props=C14 tier=quick kind=bounded
//@ fns: taiko DifficultyValues::create_difficulty_objects
//@ bound: bounded: 1 hit object (hit or non-hit); limit any u32
//@ clause: as U11.taiko.count.n0
h!(u11_taiko_count_n1, 1);
//@ obl: id=U11.taiko.count.n2 harness=u11_taiko_count_n2 props=C14 tier=quick kind=bounded
//@ fns: taiko DifficultyValues::create_difficulty_objects
//@ bound: bounded: 2 hit objects; limit any u32
//@ clause: as U11.taiko.count.n0
h!(u11_taiko_count_n2, 2);
//@ obl: id=U11.taiko.count.n3 harness=u11_taiko_count_n3 props=C14 tier=quick kind=bounded
//@ fns: taiko DifficultyValues::create_difficulty_objects
//@ bound: bounded: 3 hit objects; limit any u32
//@ clause: as U11.taiko.count.n0
h!(u11_taiko_count_n3, 3);
