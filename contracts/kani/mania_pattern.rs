//@ unit: mania_pattern
//@ target: src/mania/convert/pattern.rs
use super::*;
use crate::mania::object::ManiaObject;

//@ obl: id=U10.column.roundtrip harness=u10_column_roundtrip props=C19 tier=quick kind=proof
//@ fns: column_to_pos, ManiaObject::column
//@ bound: loop-free; every column c < total for every key count a conversion can produce, 1..=10 (the pair is NOT inverse for larger counts: 14 keys, column 7 reads back as 6 - unreachable, column_to_pos is only used by the converter)
//@ clause: column_to_pos and ManiaObject::column are an inverse pair on valid columns: ManiaObject::column(column_to_pos(c, t), t) == c, hence every generated note reads back in the column it was generated for and below the key count; the RAW column floor(x / (512/t)) of the generated position is also c (no reliance on the clamp)
#[kani::proof]
fn u10_column_roundtrip() {
    let t: i32 = kani::any();
    // key counts a conversion can produce: key mods 1K..10K, otherwise 4..7 (U10.target_columns)
    kani::assume(t >= 1 && t <= 10);
    let c: u8 = kani::any();
    kani::assume((c as i32) < t);
    let x = column_to_pos(c, t);
    assert!(x >= 0.0 && x < 512.0, "C19 generated x position inside the playfield width");
    assert!(ManiaObject::column(x, t as f32) == c as usize, "C19 a note generated for column c reads back as column c");
    let raw = (x / (512.0 / t as f32)).floor();
    assert!(raw == c as f32, "C19 the raw (unclamped) column of a generated note is below the key count");
}

//@ obl: id=U10.column.range harness=u10_column_range props=C19,C05 tier=quick kind=proof
//@ fns: ManiaObject::column
//@ bound: loop-free; all 2^32 f32 bit patterns of x (incl. NaN, infinities, negatives), key counts 1..=18
//@ clause: ManiaObject::column(x, t) < t for every x: no object can be placed in a column at or beyond the key count
#[kani::proof]
fn u10_column_range() {
    let x: f32 = kani::any();
    let t: u8 = kani::any();
    kani::assume(t >= 1 && t <= 18);
    assert!(ManiaObject::column(x, f32::from(t)) < t as usize, "C19 column index below the key count for every x");
}

//@ obl: id=U10.contained_columns harness=u10_contained_columns props=C19,C05 tier=quick kind=proof
//@ fns: ContainedColumns::insert, ContainedColumns::contains, ContainedColumns::len, ContainedColumns::append
//@ bound: loop-free; all 2^16 set states, columns 0..=15
//@ clause: the column bit set behaves like a set of columns < 16: after insert(c) contains(c) holds, other columns are unchanged, len grows by one exactly if c was new; append is set union and empties the other set
#[kani::proof]
fn u10_contained_columns() {
    let bits: u16 = kani::any();
    let c: u8 = kani::any();
    let d: u8 = kani::any();
    kani::assume(c < 16 && d < 16);
    let mut s = ContainedColumns(bits);
    let had = s.contains(c);
    let had_d = s.contains(d);
    let n = s.len();
    s.insert(c);
    assert!(s.contains(c), "C19 inserted column is contained");
    if d != c {
        assert!(s.contains(d) == had_d, "C19 insert leaves other columns unchanged");
    }
    assert!(s.len() == n + u32::from(!had), "C19 len counts distinct columns");
    let other_bits: u16 = kani::any();
    let mut o = ContainedColumns(other_bits);
    let before = s;
    s.append(&mut o);
    assert!(s.contains(d) == (before.contains(d) || other_bits & (1 << d) != 0), "C19 append is set union");
    assert!(o.len() == 0, "C19 append drains the other set");
}
