//@ unit: skills_peaks
//@ target: src/any/difficulty/skills.rs
//@ assume: bounded stand-in: number of peaks fixed per harness (<= 2); peak values symbolic (positive class: any positive f64 incl. subnormal/inf, non-NaN where sums are compared)
use super::*;

/// The provided trait method `StrainSkill::get_current_strain_peaks` is the code under contract (no skill overrides
/// it: the `define_skill!` macro only generates the required methods); it is reached through a carrier type.
struct Movement;

impl StrainSkill for Movement {
    type DifficultyObject<'a> = ();
    type DifficultyObjects<'a> = ();

    fn process<'a>(&mut self, _: &Self::DifficultyObject<'a>, _: &Self::DifficultyObjects<'a>) {}
    fn count_top_weighted_strains(&self, _: f64) -> f64 {
        0.0
    }
    fn save_current_peak(&mut self) {}
    fn start_new_section_from<'a>(&mut self, _: f64, _: &Self::DifficultyObject<'a>, _: &Self::DifficultyObjects<'a>) {}
    fn into_current_strain_peaks(self) -> StrainsVec {
        StrainsVec::with_capacity(0)
    }
    fn difficulty_value(_: StrainsVec) -> f64 {
        0.0
    }
    fn into_difficulty_value(self) -> f64 {
        0.0
    }
    fn cloned_difficulty_value(&self) -> f64 {
        0.0
    }
}

fn positive() -> f64 {
    let v: f64 = kani::any();
    kani::assume(v > 0.0);
    v
}

//@ obl: id=U5.peaks.current harness=u5_current_strain_peaks props=C16 tier=quick kind=bounded
//@ fns: StrainSkill::get_current_strain_peaks (provided trait method, reached through a carrier type; no skill overrides it)
//@ bound: bounded: 0 or 1 stored peaks (positive or zero), the open section's peak any f64 bit pattern
//@ clause: get_current_strain_peaks appends the open section's peak to the stored ones unconditionally: the result has exactly one more section (also when that peak is 0), earlier sections unchanged, last section == the peak (0.0 for non-positive values) - both the exported strains and the aggregation start from this list, so all skills report the same number of sections
#[kani::proof]
#[kani::unwind(6)]
fn u5_current_strain_peaks() {
    let mut sv = StrainsVec::with_capacity(4);
    let first_pos: bool = kani::any();
    let first = if first_pos { positive() } else { 0.0 };
    let has_first: bool = kani::any();
    if has_first {
        sv.push(first);
    }
    let n = sv.len();
    let cur: f64 = kani::any();
    let out = <Movement as StrainSkill>::get_current_strain_peaks(sv, cur);
    assert!(out.len() == n + 1, "C16 the open section is always exported: one more section than stored peaks");
    let mut it = out.iter();
    if has_first {
        assert!(it.next().map(f64::to_bits) == Some(first.to_bits()), "C16 stored peaks are kept");
    }
    let last = it.next();
    let expect = if cur.to_bits() > 0 && cur.is_sign_positive() { cur } else { 0.0 };
    assert!(last.map(f64::to_bits) == Some(expect.to_bits()), "C16 the last section is the open section's peak");
    assert!(it.next().is_none(), "C16 nothing else is appended");
    std::mem::forget(out);
}

// NOTE: obligations on `difficulty_value` (retain + std sort_by + transmute + weighted sum) were tried with 0, 1 and 2
// peaks and did not finish within 400 s (CBMC's symbolic execution of std's sort); they are not registered. The pieces
// that are under contract: retain_non_zero / transmute_into_vec (U5.retain.*), push / iter (U5.iter.*), sum (U5.sum.*).
