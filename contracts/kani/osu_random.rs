//@ unit: osu_random
//@ target: src/util/random/osu.rs
use super::*;

fn any_rng() -> Random {
    let mut r = Random::new(kani::any());
    r.y = kani::any();
    r.z = kani::any();
    r.w = kani::any();
    r
}

//@ obl: id=U10.random.int_range harness=u10_random_int_range props=C19,C05 tier=quick kind=proof
//@ fns: Random::next_int_range, Random::next_double, Random::next_int, Random::gen_unsigned
//@ bound: loop-free; every generator state (all 2^128 x,y,z,w), all bounds 0 <= lo < hi <= 18 (mania column ranges)
//@ clause: next_int_range(lo, hi) lies in [lo, hi): a randomly chosen column is never at or beyond the upper bound; next_double() lies in [0, 1)
#[kani::proof]
fn u10_random_int_range() {
    let mut r = any_rng();
    let (lo, hi): (i32, i32) = (kani::any(), kani::any());
    kani::assume(0 <= lo && lo < hi && hi <= 18);
    let mut r2 = any_rng();
    let d = r2.next_double();
    assert!(d >= 0.0 && d < 1.0, "C19 next_double in [0, 1)");
    let v = r.next_int_range(lo, hi);
    assert!(v >= lo && v < hi, "C19 next_int_range(lo, hi) in [lo, hi)");
}
