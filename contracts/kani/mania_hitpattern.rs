//@ unit: mania_hitpattern
//@ target: src/mania/convert/pattern_generator/hit_object.rs
//@ assume: bounded stand-in: key count fixed per harness (the column loops run at most key-count times); the previous pattern holds notes in columns below the key count - that earlier generators never hand over a note outside the stage is the property itself one step earlier; for the single-note arms (CYCLE, STAIR, REVERSE_STAIR) the special column 0 of 8K is left out of the previous pattern (those arms rely on an invariant of the conversion - a lone previous note is never on the special column - that is not under contract)
//@ assume: only the deterministic arms of generate_core (REVERSE, CYCLE, FORCE_STACK, STAIR, REVERSE_STAIR) are under contract; the random arms (float probabilities, retry loops) are not
use super::*;
use crate::model::hit_object::HitObjectKind;
use rosu_map::util::Pos;

static mut ADD_CALLS: usize = 0;
static mut ADD_BAD: bool = false;
static mut ADD_SEEN: u16 = 0;
static mut ADD_LOWER: u8 = 0;
static mut ADD_TOTAL: i32 = 0;
/// call-site contract for Pattern::add_note in the multi-note arms: the real function pushes onto the pattern's Vec, whose
/// length then depends on the symbolic previous pattern (CBMC runs out of memory); the recorder checks the column handed
/// over and counts. What add_note does with a column is obligation U10.column.roundtrip.
fn stub_add_note(_p: &mut Pattern, _g: &HitObjectPatternGenerator<'_>, column: u8) {
    unsafe {
        ADD_CALLS += 1;
        if column < ADD_LOWER || i32::from(column) >= ADD_TOTAL || column >= 16 {
            ADD_BAD = true;
        } else {
            if ADD_SEEN & (1 << column) != 0 {
                ADD_BAD = true; // two notes in one column
            }
            ADD_SEEN |= 1 << column;
        }
    }
}

/// previous pattern of `n_notes` notes in symbolic, pairwise different columns (special column 0 of 8K included), built
/// with the real new_note / append so that container lengths stay concrete
fn multi(total_columns: i32, convert_type: PatternType, n_notes: usize) {
    let h = HitObject { pos: Pos::new(100.0, 192.0), start_time: 1000.0, kind: HitObjectKind::Circle };
    let map = Beatmap::default();
    let mut random = Random::new(1);
    let empty = Pattern::default();
    let lower: u8 = if total_columns == 8 { 1 } else { 0 };
    let mut prev = Pattern::default();
    let mut regular = 0usize;
    let mut used: u16 = 0;
    {
        let builder = HitObjectPatternGenerator {
            sample: HitSoundType::default(),
            stair_type: PatternType::default(),
            inner: PatternGenerator::new(&h, total_columns, &mut random, &map),
            convert_type: PatternType::default(),
            prev_pattern: &empty,
        };
        let mut k = 0;
        while k < n_notes {
            let c: u8 = kani::any();
            kani::assume(i32::from(c) < total_columns && used & (1 << c) == 0);
            used |= 1 << c;
            if c >= lower {
                regular += 1;
            }
            let mut one = Pattern::new_note(&builder, c);
            prev.append(&mut one);
            std::mem::forget(one);
            k += 1;
        }
        std::mem::forget(builder);
    }
    assert!(prev.hit_objects.len() == n_notes);
    unsafe {
        ADD_CALLS = 0;
        ADD_BAD = false;
        ADD_SEEN = 0;
        ADD_LOWER = lower;
        ADD_TOTAL = total_columns;
    }
    let mut random2 = Random::new(1);
    let mut gen = HitObjectPatternGenerator {
        sample: HitSoundType::default(),
        stair_type: PatternType::default(),
        inner: PatternGenerator::new(&h, total_columns, &mut random2, &map),
        convert_type,
        prev_pattern: &prev,
    };
    let pattern = gen.generate_core();
    assert!(!unsafe { ADD_BAD }, "C19 every note is added in a regular column [random_start, key count), at most one per column");
    assert!(unsafe { ADD_CALLS } == regular, "C19 REVERSE / FORCE_STACK produce one note per note of the previous pattern in a regular column");
    kani::cover!(regular == n_notes);
    kani::cover!(lower == 0 || regular + 1 == n_notes);
    std::mem::forget(pattern);
    std::mem::forget(gen);
    std::mem::forget(prev);
}

/// single-note arms: runs the real generate_core (real new_note) on a previous pattern of one note in a regular column
fn arm(total_columns: i32, convert_type: PatternType) {
    arm_excluding(total_columns, convert_type, u8::MAX);
}

/// `exclude`: a column the previous note is not in (the centre column of odd key counts, which the CYCLE guard sends on
/// to the random arms)
fn arm_excluding(total_columns: i32, convert_type: PatternType, exclude: u8) {
    let h = HitObject { pos: Pos::new(100.0, 192.0), start_time: 1000.0, kind: HitObjectKind::Circle };
    let map = Beatmap::default();
    let mut random = Random::new(1);
    let empty = Pattern::default();
    let lower: u8 = if total_columns == 8 { 1 } else { 0 };
    // previous pattern, built with the real add_note
    let mut prev = Pattern::default();
    {
        let builder = HitObjectPatternGenerator {
            sample: HitSoundType::default(),
            stair_type: PatternType::default(),
            inner: PatternGenerator::new(&h, total_columns, &mut random, &map),
            convert_type: PatternType::default(),
            prev_pattern: &empty,
        };
        let c: u8 = kani::any();
        kani::assume(c >= lower && i32::from(c) < total_columns && c != exclude);
        prev.add_note(&builder, c);
        std::mem::forget(builder);
    }
    let mut random2 = Random::new(1);
    let mut gen = HitObjectPatternGenerator {
        sample: HitSoundType::default(),
        stair_type: PatternType::default(),
        inner: PatternGenerator::new(&h, total_columns, &mut random2, &map),
        convert_type,
        prev_pattern: &prev,
    };
    let n_prev = prev.hit_objects.len();
    kani::assume(n_prev > 0);
    let pattern = gen.generate_core();
    // every note of the new pattern lies on the stage
    let mut c: u8 = 0;
    // ContainedColumns is a u16 bit set: columns 0..16 can be asked for (a note beyond that overflows its shift)
    while c < 16 {
        if c < lower || i32::from(c) >= total_columns {
            assert!(!pattern.column_has_obj(c), "C19 no note outside the regular columns [random_start, key count)");
        }
        c += 1;
    }
    let divisor = 512.0 / total_columns as f32;
    let mut i = 0;
    while i < pattern.hit_objects.len() {
        let raw = (pattern.hit_objects[i].pos.x / divisor).floor();
        assert!(raw >= 0.0 && raw < total_columns as f32, "C19 every note's position maps to a column below the key count (raw column, no clamp)");
        i += 1;
    }
    assert!(pattern.hit_objects.len() <= total_columns as usize, "C19 at most one note per column");
    assert!(pattern.hit_objects.len() == 1, "C19 single-note arms produce one note");
    std::mem::forget(pattern);
    std::mem::forget(gen);
    std::mem::forget(prev);
}

macro_rules! hp {
    ($name:ident, $k:expr, $ty:expr, false, $n:expr) => {
        #[kani::proof]
        #[kani::unwind(18)]
        #[kani::stub(Pattern::add_note, stub_add_note)]
        fn $name() {
            multi($k, $ty, $n);
        }
    };
    ($name:ident, $k:expr, $ty:expr, $single:expr, $n:expr) => {
        #[kani::proof]
        #[kani::unwind(18)]
        fn $name() {
            arm($k, $ty);
        }
    };
}

//@ obl: id=U10.hitpattern.reverse.k8 harness=u10_hitpattern_reverse_k8 props=C19,C05 stubs=yes tier=quick kind=bounded
//@ fns: HitObjectPatternGenerator::generate_core (REVERSE arm), Pattern::column_has_obj, PatternGenerator::random_start
//@ bound: bounded: 8 keys (special column: random_start == 1); previous pattern = any three notes in different columns 0..8 (special column included)
//@ clause: mirroring the previous pattern keeps every note in the regular columns [random_start, key count): no note in the special column, none at or beyond the key count, one note per previous note in a regular column; u8 column arithmetic does not overflow
hp!(u10_hitpattern_reverse_k8, 8, PatternType::REVERSE, false, 3);
//@ obl: id=U10.hitpattern.reverse.k7 harness=u10_hitpattern_reverse_k7 props=C19,C05 stubs=yes tier=quick kind=bounded
//@ fns: HitObjectPatternGenerator::generate_core (REVERSE arm)
//@ bound: bounded: 7 keys; previous pattern = any two notes in different columns
//@ clause: as U10.hitpattern.reverse.k8
hp!(u10_hitpattern_reverse_k7, 7, PatternType::REVERSE, false, 2);
//@ obl: id=U10.hitpattern.stack.k8 harness=u10_hitpattern_stack_k8 props=C19,C05 stubs=yes tier=quick kind=bounded
//@ fns: HitObjectPatternGenerator::generate_core (FORCE_STACK arm)
//@ bound: bounded: 8 keys; previous pattern = any three notes in different columns 0..8 (special column included)
//@ clause: stacking on the previous pattern's columns keeps every note on the stage and the number of notes
hp!(u10_hitpattern_stack_k8, 8, PatternType::FORCE_STACK, false, 3);
//@ obl: id=U10.hitpattern.cycle.k8 harness=u10_hitpattern_cycle_k8 props=C19,C05 tier=quick kind=bounded
//@ fns: HitObjectPatternGenerator::generate_core (CYCLE arm), Pattern::new_note
//@ bound: bounded: 8 keys; previous pattern = one note in any regular column
//@ clause: cycling backwards from a single previous note yields one note in the regular columns
hp!(u10_hitpattern_cycle_k8, 8, PatternType::CYCLE, true, 1);
//@ obl: id=U10.hitpattern.stair.k8 harness=u10_hitpattern_stair_k8 props=C19,C05 tier=quick kind=bounded
//@ fns: HitObjectPatternGenerator::generate_core (STAIR arm)
//@ bound: bounded: 8 keys; previous pattern = one note in any regular column
//@ clause: the next stair step is one note in the regular columns, wrapping from the last column to random_start
hp!(u10_hitpattern_stair_k8, 8, PatternType::STAIR, true, 1);
//@ obl: id=U10.hitpattern.rstair.k8 harness=u10_hitpattern_rstair_k8 props=C19,C05 tier=quick kind=bounded
//@ fns: HitObjectPatternGenerator::generate_core (REVERSE_STAIR arm)
//@ bound: bounded: 8 keys; previous pattern = one note in any regular column
//@ clause: the previous stair step is one note in the regular columns, wrapping from random_start to the last column; the i8 arithmetic does not go negative
hp!(u10_hitpattern_rstair_k8, 8, PatternType::REVERSE_STAIR, true, 1);
//@ obl: id=U10.hitpattern.rstair.k4 harness=u10_hitpattern_rstair_k4 props=C19,C05 tier=quick kind=bounded
//@ fns: HitObjectPatternGenerator::generate_core (REVERSE_STAIR arm)
//@ bound: bounded: 4 keys; previous pattern = one note in any column
//@ clause: as U10.hitpattern.rstair.k8
hp!(u10_hitpattern_rstair_k4, 4, PatternType::REVERSE_STAIR, true, 1);
//@ obl: id=U10.hitpattern.reverse.k4 harness=u10_hitpattern_reverse_k4 props=C19,C05 stubs=yes tier=quick kind=bounded
//@ fns: HitObjectPatternGenerator::generate_core (REVERSE arm)
//@ bound: bounded: 4 keys; previous pattern = any two notes in different columns
//@ clause: as U10.hitpattern.reverse.k8
hp!(u10_hitpattern_reverse_k4, 4, PatternType::REVERSE, false, 2);
//@ obl: id=U10.hitpattern.stack.k7 harness=u10_hitpattern_stack_k7 props=C19,C05 stubs=yes tier=quick kind=bounded
//@ fns: HitObjectPatternGenerator::generate_core (FORCE_STACK arm)
//@ bound: bounded: 7 keys; previous pattern = any three notes in different columns
//@ clause: as U10.hitpattern.stack.k8
hp!(u10_hitpattern_stack_k7, 7, PatternType::FORCE_STACK, false, 3);
//@ obl: id=U10.hitpattern.cycle.k4 harness=u10_hitpattern_cycle_k4 props=C19,C05 tier=quick kind=bounded
//@ fns: HitObjectPatternGenerator::generate_core (CYCLE arm)
//@ bound: bounded: 4 keys; previous pattern = one note in any column
//@ clause: as U10.hitpattern.cycle.k8
hp!(u10_hitpattern_cycle_k4, 4, PatternType::CYCLE, true, 1);
//@ obl: id=U10.hitpattern.cycle.k7 harness=u10_hitpattern_cycle_k7 props=C19,C05 tier=quick kind=bounded
//@ fns: HitObjectPatternGenerator::generate_core (CYCLE arm)
//@ bound: bounded: 7 keys; previous pattern = one note in any column but the centre (the guard sends a centre note on to the random arms, which are not under contract)
//@ clause: as U10.hitpattern.cycle.k8
#[kani::proof]
#[kani::unwind(18)]
fn u10_hitpattern_cycle_k7() {
    arm_excluding(7, PatternType::CYCLE, 3);
}
//@ obl: id=U10.hitpattern.stair.k4 harness=u10_hitpattern_stair_k4 props=C19,C05 tier=quick kind=bounded
//@ fns: HitObjectPatternGenerator::generate_core (STAIR arm)
//@ bound: bounded: 4 keys; previous pattern = one note in any column
//@ clause: as U10.hitpattern.stair.k8
hp!(u10_hitpattern_stair_k4, 4, PatternType::STAIR, true, 1);
//@ obl: id=U10.hitpattern.stair.k7 harness=u10_hitpattern_stair_k7 props=C19,C05 tier=quick kind=bounded
//@ fns: HitObjectPatternGenerator::generate_core (STAIR arm)
//@ bound: bounded: 7 keys; previous pattern = one note in any column
//@ clause: as U10.hitpattern.stair.k8
hp!(u10_hitpattern_stair_k7, 7, PatternType::STAIR, true, 1);
