//@ unit: gradual_catch
//@ target: src/catch/difficulty/gradual.rs
//@ assume: T4: `Movement::process`, `Movement::cloned_difficulty_value` and `DifficultyValues::eval` are replaced by stubs during verification (float pipeline); their frame - they do not write idx, the object arrays or the count fields - is assumed. Native replays run the real skill.
//@ assume: inductive-step argument: obligations are proved from ANY state satisfying the representation invariant (count.len()==N, diff_objects.len()==max(N,1)-1, idx<=diff_objects.len()+1, N==0 ==> idx==0, attrs count exactly the first idx palpable objects); that `new` establishes it is not proved (float-heavy object conversion)
//@ assume: bounded: N (number of palpable objects) is fixed per harness; per-object count deltas (fruit or droplet, tiny droplets <= 2^16) are symbolic; idx and the nth argument are fully symbolic
//@ attr: file=src/catch/performance/gradual.rs anchor=`pub fn next(&mut self, state: CatchScoreState)` insert=`#[cfg(kani)] pub(crate) fn __verif_from_parts(difficulty: CatchGradualDifficulty) -> Self { Self { difficulty } }`
use super::*;
use crate::catch::difficulty::object::LastObject;

static mut LOG: [usize; 8] = [usize::MAX; 8];
static mut LOG_N: usize = 0;

fn stub_process<'a>(_s: &mut Movement, curr: &CatchDifficultyObject, _objects: &[CatchDifficultyObject]) {
    unsafe {
        if LOG_N < 8 {
            LOG[LOG_N] = curr.idx;
        }
        LOG_N += 1;
    }
}
fn stub_value(_s: &Movement) -> f64 {
    0.0
}
fn stub_eval(_attrs: &mut CatchDifficultyAttributes, _v: f64) {}

fn diff_obj(i: usize) -> CatchDifficultyObject {
    CatchDifficultyObject {
        idx: i,
        start_time: 500.0 * (i + 1) as f64,
        delta_time: 500.0,
        normalized_pos: 100.0,
        last_normalized_pos: 50.0,
        strain_time: 500.0,
        last_object: LastObject { hyper_dash: false, dist_to_hyper_dash: 10.0 },
    }
}

/// Any state satisfying the representation invariant; returns the state and the (fruits, droplets, tiny) totals of
/// the first k objects for every k (prefix sums), so that counts can be checked against the map prefix.
fn any_state(n: usize) -> (CatchGradualDifficulty, [(u32, u32, u32); 6]) {
    let mut builder = ObjectCountBuilder::new_gradual();
    let mut prefix = [(0u32, 0u32, 0u32); 6];
    let mut i = 0;
    while i < n {
        let tiny: u32 = kani::any();
        kani::assume(tiny <= 1 << 16);
        builder.record_tiny_droplets(tiny);
        let (f, d, t) = prefix[i];
        if kani::any() {
            builder.record_fruit();
            prefix[i + 1] = (f + 1, d, t + tiny);
        } else {
            builder.record_droplet();
            prefix[i + 1] = (f, d + 1, t + tiny);
        }
        i += 1;
    }
    let count = builder.into_gradual();
    let mut diffs = Vec::new();
    for i in 1..n {
        diffs.push(diff_obj(i - 1));
    }
    let idx: usize = kani::any();
    kani::assume(idx <= diffs.len() + 1);
    if n == 0 {
        kani::assume(idx == 0);
    }
    let mut attrs = CatchDifficultyAttributes::default();
    attrs.n_fruits = prefix[idx].0;
    attrs.n_droplets = prefix[idx].1;
    attrs.n_tiny_droplets = prefix[idx].2;
    let g = CatchGradualDifficulty {
        idx,
        difficulty: Difficulty::new(),
        attrs,
        count,
        diff_objects: diffs.into_boxed_slice(),
        movement: Movement::new(50.0, 1.0),
    };
    (g, prefix)
}

fn invariant(g: &CatchGradualDifficulty, n: usize) -> bool {
    g.count.len() == n
        && g.diff_objects.len() + 1 == if n == 0 { 1 } else { n }
        && g.idx <= g.diff_objects.len() + 1
        && (n > 0 || g.idx == 0)
}

fn step_protocol(n: usize) {
    let (mut g, prefix) = any_state(n);
    let idx0 = g.idx;
    let remaining = n - idx0;
    assert!(g.len() == remaining, "C15.a len() == number of values still to come");
    assert!(g.size_hint() == (remaining, Some(remaining)), "C15.a size_hint() == (remaining, Some(remaining))");
    let consumed;
    let ret;
    if kani::any() {
        ret = g.next();
        assert!(ret.is_some() == (remaining > 0), "C15.b next() is Some iff values remain");
        consumed = if remaining > 0 { 1 } else { 0 };
    } else {
        let k: usize = kani::any();
        ret = g.nth(k);
        assert!(ret.is_some() == (k < remaining), "C15.c nth(k) is Some iff more than k values remain");
        consumed = if k < remaining { k + 1 } else { remaining };
    }
    assert!(g.idx == idx0 + consumed, "C15.bc exactly min(k+1, remaining) values are consumed");
    assert!(invariant(&g, n), "C15.d representation invariant preserved (exhausted stays exhausted, no overflow)");
    assert!(g.len() == remaining - consumed, "C15.d len() decreases by the number of consumed values");
    // C02 / C14: after i values the attributes count exactly the first i palpable objects
    let (f, d, t) = prefix[g.idx];
    assert!(g.attrs.n_fruits == f && g.attrs.n_droplets == d && g.attrs.n_tiny_droplets == t, "C02 counts after i values are the counts of the first i objects");
    if let Some(a) = ret {
        assert!(a.n_fruits == f && a.n_droplets == d && a.n_tiny_droplets == t, "C02 the i-th gradual value counts exactly the first i objects");
        assert!((a.n_fruits + a.n_droplets) as usize == g.idx, "C14 fruits + droplets == objects considered");
    }
    std::mem::forget(g);
}

fn step_processed(n: usize) {
    let (mut g, _) = any_state(n);
    let idx0 = g.idx;
    let remaining = n - idx0;
    let consumed = if kani::any() {
        let _ = g.next();
        if remaining > 0 { 1 } else { 0 }
    } else {
        let k: usize = kani::any();
        let _ = g.nth(k);
        if k < remaining { k + 1 } else { remaining }
    };
    let first = if idx0 == 0 { 0 } else { idx0 - 1 };
    let end = if idx0 + consumed == 0 { 0 } else { idx0 + consumed - 1 };
    let expect = if end > first { end - first } else { 0 };
    unsafe {
        assert!(LOG_N == expect, "C02 one operation processes exactly the difficulty objects of the consumed objects");
        let mut i = 0;
        while i < expect && i < 8 {
            assert!(LOG[i] == first + i, "C02 difficulty objects are processed once each, in order");
            i += 1;
        }
    }
    // dropping the calculator is not under contract here (drop glue of the object arrays is expensive for CBMC)
    std::mem::forget(g);
}

macro_rules! h {
    ($name:ident, $f:ident, $n:expr) => {
        #[kani::proof]
        #[kani::unwind(8)]
        #[kani::stub(<Movement as StrainSkill>::process, stub_process)]
        #[kani::stub(<Movement as StrainSkill>::cloned_difficulty_value, stub_value)]
        #[kani::stub(crate::catch::difficulty::DifficultyValues::eval, stub_eval)]
        fn $name() {
            $f($n);
        }
    };
}

//@ obl: id=U12.catch.protocol.n0 harness=u12_catch_protocol_n0 props=C15,C02,C03 tier=quick kind=bounded
//@ fns: CatchGradualDifficulty::next, CatchGradualDifficulty::nth, CatchGradualDifficulty::len, CatchGradualDifficulty::size_hint, CatchDifficultyAttributes::add_object_count, ObjectCountBuilder::{record_fruit,record_droplet,record_tiny_droplets,into_gradual}
//@ bound: bounded: N = 0 palpable objects; idx and nth argument k range over all usize
//@ clause: C15 (a) len()==remaining, size_hint()==(remaining,Some(remaining)); (b) next() Some iff remaining>0, then idx'=idx+1, else unchanged; (c) nth(k) Some iff k<remaining, consumes min(k+1,remaining); (d) invariant preserved, no overflow / index panic; after i values fruits/droplets/tiny droplets are those of the first i palpable objects
h!(u12_catch_protocol_n0, step_protocol, 0);
//@ obl: id=U12.catch.protocol.n1 harness=u12_catch_protocol_n1 props=C15,C02,C03 tier=quick kind=bounded
//@ fns: CatchGradualDifficulty::next, CatchGradualDifficulty::nth, CatchGradualDifficulty::len, CatchGradualDifficulty::size_hint
//@ bound: bounded: N = 1; idx, k all usize
//@ clause: as U12.catch.protocol.n0
h!(u12_catch_protocol_n1, step_protocol, 1);
//@ obl: id=U12.catch.protocol.n2 harness=u12_catch_protocol_n2 props=C15,C02,C03 tier=quick kind=bounded
//@ fns: CatchGradualDifficulty::next, CatchGradualDifficulty::nth, CatchGradualDifficulty::len, CatchGradualDifficulty::size_hint
//@ bound: bounded: N = 2; idx, k all usize
//@ clause: as U12.catch.protocol.n0
h!(u12_catch_protocol_n2, step_protocol, 2);
//@ obl: id=U12.catch.protocol.n3 harness=u12_catch_protocol_n3 props=C15,C02,C03 tier=quick kind=bounded
//@ fns: CatchGradualDifficulty::next, CatchGradualDifficulty::nth, CatchGradualDifficulty::len, CatchGradualDifficulty::size_hint
//@ bound: bounded: N = 3; idx, k all usize
//@ clause: as U12.catch.protocol.n0
h!(u12_catch_protocol_n3, step_protocol, 3);
//@ obl: id=U12.catch.protocol.n4 harness=u12_catch_protocol_n4 props=C15,C02,C03 tier=thorough kind=bounded budget=3000
//@ fns: CatchGradualDifficulty::next, CatchGradualDifficulty::nth, CatchGradualDifficulty::len, CatchGradualDifficulty::size_hint
//@ bound: bounded: N = 4; idx, k all usize
//@ clause: as U12.catch.protocol.n0
h!(u12_catch_protocol_n4, step_protocol, 4);
//@ obl: id=U12.catch.processed.n3 harness=u12_catch_processed_n3 stubs=yes props=C02 tier=quick kind=bounded
//@ fns: CatchGradualDifficulty::next, CatchGradualDifficulty::nth
//@ bound: bounded: N = 3; idx, k all usize
//@ clause: C02: one next()/nth(k) processes exactly the difficulty objects belonging to the consumed palpable objects (object j+1 -> difficulty object j), each once and in increasing order
h!(u12_catch_processed_n3, step_processed, 3);

// ---- C03: gradual performance = one-shot performance of the partial play ------------------------------------------
use crate::catch::performance::gradual::CatchGradualPerformance;
use crate::catch::performance::CatchPerformance;
use crate::catch::{CatchPerformanceAttributes, CatchScoreState};

// Everything the recording stub needs is kept as plain data (no enums with heap variants travel through statics, which
// would make CBMC explore BTreeMap / Beatmap clones).
static mut EXP_BITS: u32 = 0;
static mut EXP_PASSED: Option<u32> = None;
static mut EXP_RATE: bool = false;
static mut EXP_LAZER: Option<bool> = None;
static mut EXP_STATE: [u32; 8] = [0; 8];
static mut EXP_I: u32 = 0;
static mut REC_CALLS: u32 = 0;
static mut REC_MATCH: bool = false;

/// the settings the caller created the gradual calculator with (possibly carrying their own passed_objects)
fn user_difficulty() -> Difficulty {
    unsafe {
        let mut d = Difficulty::new().mods(EXP_BITS);
        if let Some(p) = EXP_PASSED {
            d = d.passed_objects(p);
        }
        if EXP_RATE {
            // a concrete non-default rate: forwarding is by cloning the whole Difficulty; a symbolic rate would drag
            // the modes' float combo arithmetic into the formula
            d = d.clock_rate(1.5);
        }
        if let Some(l) = EXP_LAZER {
            d = d.lazer(l);
        }
        d
    }
}

fn user_state() -> CatchScoreState {
    unsafe { CatchScoreState { max_combo: EXP_STATE[0], fruits: EXP_STATE[1], droplets: EXP_STATE[2], tiny_droplets: EXP_STATE[3], tiny_droplet_misses: EXP_STATE[4], misses: EXP_STATE[5] } }
}

/// Recording replacement for `CatchPerformance::calculate` (the float pp pipeline): checks the builder it is called on
/// against what a one-shot user builds from the same attributes:
/// Performance(attrs).difficulty(D).passed_objects(i).state(S) - i.e. applying exactly those settings changes nothing.
fn rec_calculate<'map>(this: CatchPerformance<'map>) -> Result<CatchPerformanceAttributes, crate::model::mode::ConvertError>
where
    'map: 'map, // early-bound, so that the generic parameter count matches the stubbed method
{
    unsafe {
        REC_CALLS += 1;
        let expect = this.clone().difficulty(user_difficulty()).passed_objects(EXP_I).state(user_state());
        REC_MATCH = this == expect;
        std::mem::forget(expect);
    }
    std::mem::forget(this);
    Ok(CatchPerformanceAttributes::default())
}

fn perf_step(n: usize) {
    let (mut g, _) = any_state(n);
    unsafe {
        EXP_BITS = kani::any();
        EXP_PASSED = if kani::any() { Some(kani::any()) } else { None };
        EXP_RATE = kani::any();
        EXP_LAZER = if kani::any() { Some(kani::any()) } else { None };
        EXP_STATE = kani::any();
    }
    g.difficulty = user_difficulty();
    let lazer = g.difficulty.get_lazer();
    let _ = lazer;
    let idx0 = g.idx;
    let remaining = n - idx0;
    let mut p = CatchGradualPerformance::__verif_from_parts(g);
    let which: u8 = kani::any();
    let k: usize = kani::any();
    let consumed = match which % 3 {
        0 => if remaining > 0 { 1 } else { 0 },
        1 => remaining,
        _ => if k < remaining { k + 1 } else { remaining },
    };
    unsafe {
        EXP_I = (idx0 + consumed) as u32;
    }
    let ret = match which % 3 {
        0 => p.next(user_state()),
        1 => p.last(user_state()),
        _ => p.nth(user_state(), k),
    };
    assert!(p.len() == remaining - consumed, "C15.e gradual performance processes min(n+1, remaining) objects (last: all remaining)");
    assert!(ret.is_some() == (remaining > 0), "C15.e gradual performance returns None exactly when nothing remains");
    unsafe {
        if remaining == 0 {
            assert!(REC_CALLS == 0, "C03 nothing is calculated when nothing remains");
        } else {
            assert!(REC_CALLS == 1, "C03 exactly one performance calculation per step");
            assert!(REC_MATCH, "C03 gradual performance evaluates exactly the one-shot builder: same settings, passed_objects(i), same state");
        }
    }
    std::mem::forget(p);
}

macro_rules! hp {
    ($name:ident, $n:expr) => {
        #[kani::proof]
        #[kani::unwind(8)]
        #[kani::stub(<Movement as StrainSkill>::process, stub_process)]
        #[kani::stub(<Movement as StrainSkill>::cloned_difficulty_value, stub_value)]
        #[kani::stub(crate::catch::difficulty::DifficultyValues::eval, stub_eval)]
        #[kani::stub(crate::catch::performance::CatchPerformance::calculate, rec_calculate)]
        fn $name() {
            perf_step($n);
        }
    };
}

//@ obl: id=U12.catch.perf.n0 harness=u12_catch_perf_n0 stubs=yes props=C03,C15 tier=quick kind=bounded
//@ fns: CatchGradualPerformance::next, CatchGradualPerformance::nth, CatchGradualPerformance::last, CatchGradualPerformance::len
//@ bound: bounded: 0 objects; calculator position, the nth argument, the score state (all u32 fields) and the caller's Difficulty (mods bits, passed_objects, lazer symbolic; clock rate unset or 1.5) symbolic; CatchPerformance::calculate replaced by a recording stub
//@ clause: C15 (e): nth(state, n) processes min(n+1, remaining) objects, last processes all remaining, next one; None exactly when nothing remains. C03: the performance builder that gets calculated equals Performance(attributes after i objects).difficulty(D).passed_objects(i).state(S) field for field, i = objects consumed so far
hp!(u12_catch_perf_n0, 0);

//@ obl: id=U12.catch.perf.n2 harness=u12_catch_perf_n2 stubs=yes props=C03,C15 tier=quick kind=bounded
//@ fns: CatchGradualPerformance::next, CatchGradualPerformance::nth, CatchGradualPerformance::last, CatchGradualPerformance::len
//@ bound: bounded: 2 objects; calculator position, the nth argument, the score state (all u32 fields) and the caller's Difficulty (mods bits, passed_objects, lazer symbolic; clock rate unset or 1.5) symbolic; CatchPerformance::calculate replaced by a recording stub
//@ clause: C15 (e): nth(state, n) processes min(n+1, remaining) objects, last processes all remaining, next one; None exactly when nothing remains. C03: the performance builder that gets calculated equals Performance(attributes after i objects).difficulty(D).passed_objects(i).state(S) field for field, i = objects consumed so far
hp!(u12_catch_perf_n2, 2);

//@ obl: id=U12.catch.perf.n3 harness=u12_catch_perf_n3 stubs=yes props=C03,C15 tier=thorough kind=bounded budget=3000
//@ fns: CatchGradualPerformance::next, CatchGradualPerformance::nth, CatchGradualPerformance::last, CatchGradualPerformance::len
//@ bound: bounded: 3 objects; calculator position, the nth argument, the score state (all u32 fields) and the caller's Difficulty (mods bits, passed_objects, lazer symbolic; clock rate unset or 1.5) symbolic; CatchPerformance::calculate replaced by a recording stub
//@ clause: C15 (e): nth(state, n) processes min(n+1, remaining) objects, last processes all remaining, next one; None exactly when nothing remains. C03: the performance builder that gets calculated equals Performance(attributes after i objects).difficulty(D).passed_objects(i).state(S) field for field, i = objects consumed so far
hp!(u12_catch_perf_n3, 3);

// ---- C02: the gradual constructor and the one-shot path convert the objects with the same arguments ---------------
use crate::model::mods::Reflection;
use crate::catch::object::palpable::PalpableObject;

static mut CO_CALLS: u32 = 0;
static mut CO_ARGS: [(u8, bool, u32); 2] = [(0, false, 0); 2];

/// Recording replacement for catch `convert_objects`: notes (reflection, hr_offsets, cs) and returns no objects.
fn rec_convert_objects(
    _map: &Beatmap,
    _count: &mut ObjectCountBuilder,
    reflection: Reflection,
    hr_offsets: bool,
    cs: f32,
) -> Vec<PalpableObject> {
    unsafe {
        if (CO_CALLS as usize) < 2 {
            CO_ARGS[CO_CALLS as usize] = (reflection as u8, hr_offsets, cs.to_bits());
        }
        CO_CALLS += 1;
    }
    Vec::new()
}

static mut CD_CALLS: u32 = 0;
static mut CD_ARGS: [(u64, u32); 2] = [(0, 0); 2];

/// Recording replacement for catch `create_difficulty_objects`: notes (clock_rate, half_catcher_width).
fn rec_create_difficulty_objects<'a, I: ExactSizeIterator<Item = &'a PalpableObject>>(
    clock_rate: f64,
    half_catcher_width: f32,
    _palpable_objects: I,
) -> Box<[CatchDifficultyObject]> {
    unsafe {
        if (CD_CALLS as usize) < 2 {
            CD_ARGS[CD_CALLS as usize] = (clock_rate.to_bits(), half_catcher_width.to_bits());
        }
        CD_CALLS += 1;
    }
    Box::default()
}

//@ obl: id=U12.catch.convert_args harness=u12_catch_convert_args stubs=yes props=C02,C03 tier=quick kind=proof
//@ fns: CatchGradualDifficulty::new, catch DifficultyValues::calculate (call sites of convert_objects)
//@ bound: object-free catch map; all legacy mod bits, explicit hardrock_offsets setting present or absent (both values), CS unset / 3.5 / 8.0; convert_objects and create_difficulty_objects replaced by recording stubs
//@ clause: the gradual constructor and the one-shot calculation call convert_objects with the same reflection, hardrock-offset flag and circle size, and the flag is the Difficulty's effective setting (explicit value, else the HR mod); both call create_difficulty_objects with the same clock rate and (CS-adjusted) half catcher width - so both paths build the same object lists
#[kani::proof]
#[kani::unwind(4)]
#[kani::stub(crate::catch::convert::convert_objects, rec_convert_objects)]
#[kani::stub(DifficultyValues::create_difficulty_objects, rec_create_difficulty_objects)]
#[kani::stub(<Movement as StrainSkill>::process, stub_process)]
#[kani::stub(<Movement as StrainSkill>::cloned_difficulty_value, stub_value)]
fn u12_catch_convert_args() {
    let mut map = Beatmap::default();
    map.mode = GameMode::Catch;
    let bits: u32 = kani::any();
    let mut d = Difficulty::new().mods(bits);
    if kani::any() {
        d = d.hardrock_offsets(kani::any());
    }
    // circle sizes on both sides of 5.5 (above it the catcher width gets an extra adjustment)
    let cs_choice: u8 = kani::any();
    match cs_choice % 3 {
        0 => {}
        1 => d = d.cs(3.5, true),
        _ => d = d.cs(8.0, true),
    }
    let expect_hr = d.get_hardrock_offsets();
    match CatchGradualDifficulty::new(d.clone(), &map) {
        Ok(g) => std::mem::forget(g),
        Err(_) => {
            assert!(false, "C02 own-mode gradual constructor cannot fail");
            return;
        }
    }
    let v = DifficultyValues::calculate(&d, &map);
    std::mem::forget(v);
    unsafe {
        assert!(CO_CALLS == 2, "C02 each path converts the objects exactly once");
        assert!(CO_ARGS[0] == CO_ARGS[1], "C02 gradual and one-shot paths convert the objects with the same reflection, hardrock offsets and circle size");
        assert!(CO_ARGS[0].1 == expect_hr, "C02 the Difficulty's hardrock_offsets setting is honoured");
        assert!(CD_CALLS == 2 && CD_ARGS[0] == CD_ARGS[1], "C02 gradual and one-shot paths build the difficulty objects with the same clock rate and catcher width");
    }
    std::mem::forget(map);
}

// ---- base case component: the difficulty-object array built by `create_difficulty_objects` -------------------------
fn base_case(n: usize) {
    let mut objs: Vec<PalpableObject> = Vec::with_capacity(4);
    let mut i = 0;
    while i < n {
        objs.push(PalpableObject::new(kani::any(), 0.0, 500.0 * i as f64));
        i += 1;
    }
    let d = DifficultyValues::create_difficulty_objects(1.0, 50.0, objs.iter());
    assert!(d.len() + 1 == if n == 0 { 1 } else { n }, "C02 one difficulty object per palpable object after the first");
    let mut j = 0;
    while j < d.len() {
        assert!(d[j].idx == j, "C02 difficulty objects are indexed in object order");
        j += 1;
    }
    std::mem::forget(d);
    std::mem::forget(objs);
}

//@ obl: id=U12.catch.base_case harness=u12_catch_base_case props=C02,C15 tier=quick kind=bounded
//@ fns: catch DifficultyValues::create_difficulty_objects
//@ bound: bounded: 0, 1, 2 and 3 palpable objects (x positions symbolic)
//@ clause: part of the invariant's base case: create_difficulty_objects returns max(N,1)-1 difficulty objects, the j-th with idx == j (so diff_objects.len() + 1 == number of palpable objects for N >= 1)
#[kani::proof]
#[kani::unwind(6)]
fn u12_catch_base_case() {
    base_case(0);
    base_case(1);
    base_case(2);
    base_case(3);
}
