//@ unit: genstate_mania
//@ target: src/mania/performance/mod.rs
//@ assume: A-BOUND: attrs n_objects, n_hold_notes <= 2^20; provided hit results / misses / passed_objects range over all of u32
//@ assume: mods are GameMods::Legacy(bits) (so `cl()` is false and classic == !lazer); lazer mod containers are not explored
use super::*;
use crate::mania::ManiaDifficultyAttributes;

const CAP: u32 = 1 << 20;

fn any_attrs() -> ManiaDifficultyAttributes {
    let mut a = ManiaDifficultyAttributes::default();
    a.n_objects = kani::any();
    a.n_hold_notes = kani::any();
    a.max_combo = kani::any();
    kani::assume(a.n_objects <= CAP && a.n_hold_notes <= CAP && a.max_combo <= CAP);
    a
}

fn any_opt() -> Option<u32> {
    if kani::any() {
        Some(kani::any())
    } else {
        None
    }
}

fn shaped(given: Option<bool>) -> Option<u32> {
    match given {
        Some(true) => Some(kani::any()),
        Some(false) => None,
        None => any_opt(),
    }
}

fn any_difficulty() -> Difficulty {
    let bits: u32 = kani::any();
    let mut d = Difficulty::new().mods(bits);
    if kani::any() {
        d = d.passed_objects(kani::any());
    }
    if kani::any() {
        d = d.lazer(kani::any());
    }
    d
}

fn any_builder(attrs: &ManiaDifficultyAttributes, acc: Option<f64>, g: [Option<bool>; 5], best: Option<bool>) -> ManiaPerformance<'static> {
    ManiaPerformance {
        map_or_attrs: MapOrAttrs::Attrs(attrs.clone()),
        difficulty: any_difficulty(),
        n320: shaped(g[0]),
        n300: shaped(g[1]),
        n200: shaped(g[2]),
        n100: shaped(g[3]),
        n50: shaped(g[4]),
        misses: any_opt(),
        acc,
        hitresult_priority: if best.unwrap_or_else(|| kani::any()) { HitResultPriority::BestCase } else { HitResultPriority::WorstCase },
    }
}

fn post(pre: &ManiaPerformance<'_>, a: &ManiaDifficultyAttributes, s: &ManiaScoreState, after: &ManiaPerformance<'_>) {
    let passed = pre.difficulty.get_passed_objects();
    let n_notes = if (a.n_objects as usize) < passed { a.n_objects } else { passed as u32 };
    let classic = !pre.difficulty.get_lazer() || pre.difficulty.get_mods().cl();
    // number of judgements: lazer scores judge hold note tails separately
    let n = if classic { n_notes } else { n_notes + a.n_hold_notes };
    assert!(s.misses <= n_notes, "C12.1 misses <= objects");
    if let Some(m) = pre.misses {
        assert!(s.misses == cmp::min(m, n_notes), "C12.1 provided misses clamped to objects");
    } else {
        assert!(s.misses == 0, "C12.1 misses default 0");
    }
    let room = n - s.misses;
    let given = [pre.n320, pre.n300, pre.n200, pre.n100, pre.n50];
    let got = [s.n320, s.n300, s.n200, s.n100, s.n50];
    let all_given = given[0].is_some() && given[1].is_some() && given[2].is_some() && given[3].is_some() && given[4].is_some();
    let mut provided: u64 = pre.misses.unwrap_or(0) as u64;
    let mut k = 0;
    while k < 5 {
        if let Some(r) = given[k] {
            provided += r as u64;
            if r <= room {
                // (2) kept; when everything is given the priority target absorbs the remainder
                assert!(if all_given { got[k] >= r } else { got[k] == r }, "C12.2 provided hit result kept");
            }
        }
        assert!(got[k] <= n, "C12.3 each result <= judgements");
        k += 1;
    }
    if provided <= n as u64 {
        assert!(s.n320 + s.n300 + s.n200 + s.n100 + s.n50 + s.misses == n, "C12.3 hit results add up to judgements");
    }
    assert!(after.misses == Some(s.misses), "C12.6 builder stores generated misses");
    assert!(
        after.n320 == Some(s.n320) && after.n300 == Some(s.n300) && after.n200 == Some(s.n200) && after.n100 == Some(s.n100) && after.n50 == Some(s.n50),
        "C12.6 builder stores generated results"
    );
    assert!(matches!(after.map_or_attrs, MapOrAttrs::Attrs(_)), "C12.6 attributes kept");
    assert!(after.hitresult_priority == pre.hitresult_priority && after.acc == pre.acc, "C12.6 frame: priority/acc untouched");
}

fn check(acc: Option<f64>, g: [Option<bool>; 5]) {
    check2(acc, g, true, true, None)
}

fn check2(acc: Option<f64>, g: [Option<bool>; 5], do_post: bool, do_idem: bool, best: Option<bool>) {
    let a = any_attrs();
    let mut b = any_builder(&a, acc, g, best);
    let pre = b.clone();
    kani::cover!(pre.misses.is_some() && pre.difficulty.get_lazer());
    let s1 = match b.generate_state() {
        Ok(s) => s,
        Err(_) => {
            assert!(false, "C12 generate_state on attributes cannot fail");
            return;
        }
    };
    if do_post {
        post(&pre, &a, &s1, &b);
    }
    if !do_idem {
        return;
    }
    let mid = b.clone();
    match b.generate_state() {
        Ok(s2) => {
            assert!(s1 == s2, "C12.5 second generate_state returns the same state");
            assert!(b == mid, "C12.5 second generate_state leaves the builder unchanged");
        }
        Err(_) => assert!(false, "C12.5 second generate_state cannot fail"),
    }
}

//@ obl: id=U7.mania.genstate.noacc_best_g320g300 harness=u7_mania_genstate_noacc_best_g320g300 props=C12 tier=quick kind=proof
//@ fns: ManiaPerformance::generate_state, Difficulty::get_passed_objects, Difficulty::get_lazer, GameMods::cl
//@ bound: loop-free path; case split (concrete): priority BestCase, n320 given, n300 given; n200/n100/n50/misses each None or any u32; attribute counts <= 2^20
//@ clause: mania generate_state without accuracy: (1) misses' = min(misses, min(passed, n_objects)); (2) provided results that fit are kept; (3) sum provided <= N ==> n320'+n300'+n200'+n100'+n50'+misses' == N, N = notes (+ hold notes for lazer scores); (6) builder holds the generated values; no overflow / panic
#[kani::proof]
fn u7_mania_genstate_noacc_best_g320g300() {
    check2(None, [Some(true), Some(true), None, None, None], true, false, Some(true));
}

//@ obl: id=U7.mania.genstate.noacc_best_g320n300 harness=u7_mania_genstate_noacc_best_g320n300 props=C12 tier=quick kind=proof
//@ fns: ManiaPerformance::generate_state, Difficulty::get_passed_objects, Difficulty::get_lazer, GameMods::cl
//@ bound: loop-free path; case split (concrete): priority BestCase, n320 given, n300 not given; n200/n100/n50/misses each None or any u32; attribute counts <= 2^20
//@ clause: mania generate_state without accuracy: (1) misses' = min(misses, min(passed, n_objects)); (2) provided results that fit are kept; (3) sum provided <= N ==> n320'+n300'+n200'+n100'+n50'+misses' == N, N = notes (+ hold notes for lazer scores); (6) builder holds the generated values; no overflow / panic
#[kani::proof]
fn u7_mania_genstate_noacc_best_g320n300() {
    check2(None, [Some(true), Some(false), None, None, None], true, false, Some(true));
}

//@ obl: id=U7.mania.genstate.noacc_best_n320g300 harness=u7_mania_genstate_noacc_best_n320g300 props=C12 tier=quick kind=proof
//@ fns: ManiaPerformance::generate_state, Difficulty::get_passed_objects, Difficulty::get_lazer, GameMods::cl
//@ bound: loop-free path; case split (concrete): priority BestCase, n320 not given, n300 given; n200/n100/n50/misses each None or any u32; attribute counts <= 2^20
//@ clause: mania generate_state without accuracy: (1) misses' = min(misses, min(passed, n_objects)); (2) provided results that fit are kept; (3) sum provided <= N ==> n320'+n300'+n200'+n100'+n50'+misses' == N, N = notes (+ hold notes for lazer scores); (6) builder holds the generated values; no overflow / panic
#[kani::proof]
fn u7_mania_genstate_noacc_best_n320g300() {
    check2(None, [Some(false), Some(true), None, None, None], true, false, Some(true));
}

//@ obl: id=U7.mania.genstate.noacc_best_n320n300 harness=u7_mania_genstate_noacc_best_n320n300 props=C12 tier=quick kind=proof
//@ fns: ManiaPerformance::generate_state, Difficulty::get_passed_objects, Difficulty::get_lazer, GameMods::cl
//@ bound: loop-free path; case split (concrete): priority BestCase, n320 not given, n300 not given; n200/n100/n50/misses each None or any u32; attribute counts <= 2^20
//@ clause: mania generate_state without accuracy: (1) misses' = min(misses, min(passed, n_objects)); (2) provided results that fit are kept; (3) sum provided <= N ==> n320'+n300'+n200'+n100'+n50'+misses' == N, N = notes (+ hold notes for lazer scores); (6) builder holds the generated values; no overflow / panic
#[kani::proof]
fn u7_mania_genstate_noacc_best_n320n300() {
    check2(None, [Some(false), Some(false), None, None, None], true, false, Some(true));
}

//@ obl: id=U7.mania.genstate.noacc_worst_g320g300 harness=u7_mania_genstate_noacc_worst_g320g300 props=C12 tier=quick kind=proof
//@ fns: ManiaPerformance::generate_state, Difficulty::get_passed_objects, Difficulty::get_lazer, GameMods::cl
//@ bound: loop-free path; case split (concrete): priority WorstCase, n320 given, n300 given; n200/n100/n50/misses each None or any u32; attribute counts <= 2^20
//@ clause: mania generate_state without accuracy: (1) misses' = min(misses, min(passed, n_objects)); (2) provided results that fit are kept; (3) sum provided <= N ==> n320'+n300'+n200'+n100'+n50'+misses' == N, N = notes (+ hold notes for lazer scores); (6) builder holds the generated values; no overflow / panic
#[kani::proof]
fn u7_mania_genstate_noacc_worst_g320g300() {
    check2(None, [Some(true), Some(true), None, None, None], true, false, Some(false));
}

//@ obl: id=U7.mania.genstate.noacc_worst_g320n300 harness=u7_mania_genstate_noacc_worst_g320n300 props=C12 tier=quick kind=proof
//@ fns: ManiaPerformance::generate_state, Difficulty::get_passed_objects, Difficulty::get_lazer, GameMods::cl
//@ bound: loop-free path; case split (concrete): priority WorstCase, n320 given, n300 not given; n200/n100/n50/misses each None or any u32; attribute counts <= 2^20
//@ clause: mania generate_state without accuracy: (1) misses' = min(misses, min(passed, n_objects)); (2) provided results that fit are kept; (3) sum provided <= N ==> n320'+n300'+n200'+n100'+n50'+misses' == N, N = notes (+ hold notes for lazer scores); (6) builder holds the generated values; no overflow / panic
#[kani::proof]
fn u7_mania_genstate_noacc_worst_g320n300() {
    check2(None, [Some(true), Some(false), None, None, None], true, false, Some(false));
}

//@ obl: id=U7.mania.genstate.noacc_worst_n320g300 harness=u7_mania_genstate_noacc_worst_n320g300 props=C12 tier=quick kind=proof
//@ fns: ManiaPerformance::generate_state, Difficulty::get_passed_objects, Difficulty::get_lazer, GameMods::cl
//@ bound: loop-free path; case split (concrete): priority WorstCase, n320 not given, n300 given; n200/n100/n50/misses each None or any u32; attribute counts <= 2^20
//@ clause: mania generate_state without accuracy: (1) misses' = min(misses, min(passed, n_objects)); (2) provided results that fit are kept; (3) sum provided <= N ==> n320'+n300'+n200'+n100'+n50'+misses' == N, N = notes (+ hold notes for lazer scores); (6) builder holds the generated values; no overflow / panic
#[kani::proof]
fn u7_mania_genstate_noacc_worst_n320g300() {
    check2(None, [Some(false), Some(true), None, None, None], true, false, Some(false));
}

//@ obl: id=U7.mania.genstate.noacc_worst_n320n300 harness=u7_mania_genstate_noacc_worst_n320n300 props=C12 tier=quick kind=proof
//@ fns: ManiaPerformance::generate_state, Difficulty::get_passed_objects, Difficulty::get_lazer, GameMods::cl
//@ bound: loop-free path; case split (concrete): priority WorstCase, n320 not given, n300 not given; n200/n100/n50/misses each None or any u32; attribute counts <= 2^20
//@ clause: mania generate_state without accuracy: (1) misses' = min(misses, min(passed, n_objects)); (2) provided results that fit are kept; (3) sum provided <= N ==> n320'+n300'+n200'+n100'+n50'+misses' == N, N = notes (+ hold notes for lazer scores); (6) builder holds the generated values; no overflow / panic
#[kani::proof]
fn u7_mania_genstate_noacc_worst_n320n300() {
    check2(None, [Some(false), Some(false), None, None, None], true, false, Some(false));
}

//@ obl: id=U7.mania.genstate.noacc_idem harness=u7_mania_genstate_noacc_idem props=C12 tier=quick kind=proof
//@ fns: ManiaPerformance::generate_state
//@ bound: loop-free path; same domain as U7.mania.genstate.noacc
//@ clause: (5) idempotence: a second generate_state() returns the same state and leaves the builder unchanged
#[kani::proof]
fn u7_mania_genstate_noacc_idem() {
    check2(None, [None; 5], false, true, None);
}

fn any_acc() -> f64 {
    let acc: f64 = kani::any();
    kani::assume(acc >= 0.0 && acc <= 1.0);
    acc
}

macro_rules! acc_shape {
    ($name:ident, $a:expr, $b:expr, $c:expr, $d:expr, $e:expr) => {
        #[kani::proof]
        fn $name() {
            check(Some(any_acc()), [Some($a), Some($b), Some($c), Some($d), Some($e)]);
        }
    };
}

//@ obl: id=U7.mania.genstate.acc_all harness=u7_mania_genstate_acc_all props=C12 tier=quick kind=proof
//@ fns: ManiaPerformance::generate_state
//@ bound: loop-free arm; accuracy any value in [0,1]
//@ clause: mania generate_state with accuracy and all five results given: C12 clauses (1)-(3),(5),(6)
acc_shape!(u7_mania_genstate_acc_all, true, true, true, true, true);
//@ obl: id=U7.mania.genstate.acc_no320 harness=u7_mania_genstate_acc_no320 props=C12 tier=quick kind=proof
//@ fns: ManiaPerformance::generate_state
//@ bound: loop-free arm; accuracy any value in [0,1]
//@ clause: mania generate_state with accuracy and all results but n320 given: C12 clauses (1)-(3),(5),(6) (clause 3 failed before fix 9ff61f9)
acc_shape!(u7_mania_genstate_acc_no320, false, true, true, true, true);
//@ obl: id=U7.mania.genstate.acc_no300 harness=u7_mania_genstate_acc_no300 props=C12 tier=quick kind=proof
//@ fns: ManiaPerformance::generate_state
//@ bound: loop-free arm; accuracy any value in [0,1]
//@ clause: mania generate_state with accuracy and all results but n300 given: C12 clauses (1)-(3),(5),(6)
acc_shape!(u7_mania_genstate_acc_no300, true, false, true, true, true);
//@ obl: id=U7.mania.genstate.acc_no200 harness=u7_mania_genstate_acc_no200 props=C12 tier=quick kind=proof
//@ fns: ManiaPerformance::generate_state
//@ bound: loop-free arm; accuracy any value in [0,1]
//@ clause: mania generate_state with accuracy and all results but n200 given: C12 clauses (1)-(3),(5),(6)
acc_shape!(u7_mania_genstate_acc_no200, true, true, false, true, true);
//@ obl: id=U7.mania.genstate.acc_no100 harness=u7_mania_genstate_acc_no100 props=C12 tier=quick kind=proof
//@ fns: ManiaPerformance::generate_state
//@ bound: loop-free arm; accuracy any value in [0,1]
//@ clause: mania generate_state with accuracy and all results but n100 given: C12 clauses (1)-(3),(5),(6)
acc_shape!(u7_mania_genstate_acc_no100, true, true, true, false, true);
//@ obl: id=U7.mania.genstate.acc_no50 harness=u7_mania_genstate_acc_no50 props=C12 tier=quick kind=proof
//@ fns: ManiaPerformance::generate_state
//@ bound: loop-free arm; accuracy any value in [0,1]
//@ clause: mania generate_state with accuracy and all results but n50 given: C12 clauses (1)-(3),(5),(6)
acc_shape!(u7_mania_genstate_acc_no50, true, true, true, true, false);

// NOTE: the accuracy search arm (two or more results unknown: nested n320/n300/n200/n100 windows) was tried with
// n_objects <= 2 and a symbolic competitor; CBMC ran out of memory after ~30 min (contracts/attempted/). Not registered.
