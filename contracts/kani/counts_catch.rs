//@ unit: counts_catch
//@ target: src/catch/attributes.rs
//@ assume: counts <= 2^30 (no u32 overflow of the counters; check_suspicion bounds object counts far below)
use super::*;

fn any_regular() -> (ObjectCountBuilder, u32, u32, u32, usize) {
    let (f, d, t): (u32, u32, u32) = (kani::any(), kani::any(), kani::any());
    kani::assume(f <= 1 << 30 && d <= 1 << 30 && t <= 1 << 30);
    let take: usize = kani::any();
    (ObjectCountBuilder::Regular { count: ObjectCount { fruits: f, droplets: d, tiny_droplets: t }, take }, f, d, t, take)
}

fn parts(b: &ObjectCountBuilder) -> (u32, u32, u32, usize) {
    match b {
        ObjectCountBuilder::Regular { count, take } => (count.fruits, count.droplets, count.tiny_droplets, *take),
        ObjectCountBuilder::Gradual { .. } => unreachable!(),
    }
}

//@ obl: id=U11.catch.record harness=u11_catch_record props=C14,C02 tier=quick kind=proof
//@ fns: ObjectCountBuilder::record_fruit, ObjectCountBuilder::record_droplet, ObjectCountBuilder::record_tiny_droplets, ObjectCountBuilder::new_regular, ObjectCountBuilder::into_regular
//@ bound: loop-free; all usize `take`, counters <= 2^30, tiny droplet increments <= 2^30
//@ clause: per call on the limited (one-shot) builder: record_fruit / record_droplet: take > 0 ==> take' = take - 1 and the respective counter + 1, everything else unchanged; take == 0 ==> nothing changes. record_tiny_droplets(n): take > 0 ==> tiny' = tiny + n, else unchanged; take never changes. new_regular(n) starts at zero counts with take = n. (The induction over the call sequence is Verus lemma U11.count_lemma.)
#[kani::proof]
fn u11_catch_record() {
    let (mut b, f, d, t, take) = any_regular();
    let which: u8 = kani::any();
    match which % 3 {
        0 => {
            b.record_fruit();
            let (f2, d2, t2, take2) = parts(&b);
            if take > 0 {
                assert!(take2 == take - 1 && f2 == f + 1 && d2 == d && t2 == t, "C14 record_fruit counts one fruit while the limit is not reached");
            } else {
                assert!(take2 == 0 && f2 == f && d2 == d && t2 == t, "C14 record_fruit beyond the limit changes nothing");
            }
        }
        1 => {
            b.record_droplet();
            let (f2, d2, t2, take2) = parts(&b);
            if take > 0 {
                assert!(take2 == take - 1 && f2 == f && d2 == d + 1 && t2 == t, "C14 record_droplet counts one droplet while the limit is not reached");
            } else {
                assert!(take2 == 0 && f2 == f && d2 == d && t2 == t, "C14 record_droplet beyond the limit changes nothing");
            }
        }
        _ => {
            let n: u32 = kani::any();
            kani::assume(n <= 1 << 30);
            b.record_tiny_droplets(n);
            let (f2, d2, t2, take2) = parts(&b);
            assert!(take2 == take && f2 == f && d2 == d, "C14 record_tiny_droplets touches only the tiny droplet counter");
            assert!(t2 == if take > 0 { t + n } else { t }, "C14 tiny droplets are counted only while the limit is not reached");
        }
    }
    let n0: usize = kani::any();
    let (f0, d0, t0, take0) = parts(&ObjectCountBuilder::new_regular(n0));
    assert!(f0 == 0 && d0 == 0 && t0 == 0 && take0 == n0, "C14 new_regular(n) starts empty with take == n");
}

//@ obl: id=U11.catch.set_count harness=u11_catch_set_object_count props=C14 tier=quick kind=proof
//@ fns: CatchDifficultyAttributes::set_object_count, CatchDifficultyAttributes::max_combo
//@ bound: loop-free; all counter values <= 2^30
//@ clause: set_object_count copies fruits, droplets and tiny droplets into the attributes unchanged; max_combo() == fruits + droplets
#[kani::proof]
fn u11_catch_set_object_count() {
    let (b, f, d, t, _) = any_regular();
    let mut a = CatchDifficultyAttributes::default();
    a.set_object_count(&b.into_regular());
    assert!(a.n_fruits == f && a.n_droplets == d && a.n_tiny_droplets == t, "C14 attributes carry exactly the counted objects");
    assert!(a.max_combo() == f + d, "C14 catch max combo == fruits + droplets");
}
