//@ unit: difficulty
//@ target: src/any/difficulty/mod.rs
//@ assume: mods are GameMods::Legacy(bits) with all 2^32 bit patterns (lazer / intermode containers are moved by the setters, never inspected)
use super::*;

fn any_md() -> Option<(f32, bool)> {
    if kani::any() {
        let v: f32 = kani::any();
        kani::assume(!v.is_nan());
        Some((v, kani::any()))
    } else {
        None
    }
}

/// any Difficulty reachable through the public setters (NaN attribute overrides excluded: PartialEq is not
/// reflexive on them, the property speaks about values)
pub(crate) fn any_difficulty() -> Difficulty {
    let bits: u32 = kani::any();
    let mut d = Difficulty::new().mods(bits);
    if kani::any() {
        d = d.passed_objects(kani::any());
    }
    if kani::any() {
        d = d.clock_rate(kani::any());
    }
    if let Some((v, w)) = any_md() {
        d = d.ar(v, w);
    }
    if let Some((v, w)) = any_md() {
        d = d.cs(v, w);
    }
    if let Some((v, w)) = any_md() {
        d = d.hp(v, w);
    }
    if let Some((v, w)) = any_md() {
        d = d.od(v, w);
    }
    if kani::any() {
        d = d.hardrock_offsets(kani::any());
    }
    if kani::any() {
        d = d.lazer(kani::any());
    }
    d
}

//@ obl: id=U8.difficulty.roundtrip harness=u8_difficulty_inspect_roundtrip props=C18 tier=quick kind=proof
//@ fns: Difficulty::inspect, InspectDifficulty::into_difficulty, Difficulty::{mods,passed_objects,clock_rate,ar,cs,hp,od,hardrock_offsets,lazer}
//@ bound: loop-free; every field None or any value (clock rate: all 2^64 bit patterns incl. NaN; attribute overrides: all non-NaN f32)
//@ clause: d.inspect().into_difficulty() == d for every Difficulty reachable through the setters (field-wise, clock rate bit-exact); inspect() exposes each field unchanged
#[kani::proof]
fn u8_difficulty_inspect_roundtrip() {
    let d = any_difficulty();
    let i = d.clone().inspect();
    assert!(i.passed_objects == d.passed_objects, "C18 inspect passed_objects");
    assert!(i.ar == d.ar && i.cs == d.cs && i.hp == d.hp && i.od == d.od, "C18 inspect attribute overrides");
    assert!(i.hardrock_offsets == d.hardrock_offsets && i.lazer == d.lazer, "C18 inspect flags");
    assert!(i.clock_rate.map(f64::to_bits) == d.clock_rate.map(NonZeroU64::get), "C18 inspect clock rate");
    assert!(i.mods == d.mods, "C18 inspect mods");
    let back = i.into_difficulty();
    assert!(back == d, "C18 Difficulty survives inspect()/into_difficulty() unchanged");
}

//@ obl: id=U3.difficulty.clamps harness=u3_difficulty_clamps props=C18,C11 tier=quick kind=proof
//@ fns: Difficulty::clock_rate, Difficulty::ar, Difficulty::cs, Difficulty::hp, Difficulty::od, Difficulty::get_clock_rate
//@ bound: loop-free; all 2^64 clock-rate bit patterns, all 2^32 f32 bit patterns
//@ clause: clock_rate(x) stores a value whose bits are non-zero for EVERY x (safety precondition of NonZeroU64::new_unchecked), inside [0.01, 100] for non-NaN x, and equal to x when x is inside; ar/cs/hp/od(v, w) store v clamped to [-20, 20] and w unchanged; clamping is idempotent
#[kani::proof]
fn u3_difficulty_clamps() {
    let x: f64 = kani::any();
    let d = Difficulty::new().clock_rate(x);
    let stored = d.clock_rate.unwrap().get();
    assert!(x.clamp(0.01, 100.0).to_bits() != 0, "C11 clock_rate bits are never zero (new_unchecked safety)");
    assert!(stored == x.clamp(0.01, 100.0).to_bits(), "C18 clock_rate stores the clamped value");
    let r = d.get_clock_rate();
    if !x.is_nan() {
        assert!(r >= 0.01 && r <= 100.0, "C18 clock_rate clamped to [0.01, 100]");
        if x >= 0.01 && x <= 100.0 {
            assert!(r.to_bits() == x.to_bits(), "C18 clock_rate in range kept");
        }
    }
    assert!(Difficulty::new().clock_rate(r).get_clock_rate().to_bits() == r.to_bits(), "C18 clock_rate clamp idempotent");
    let v: f32 = kani::any();
    let w: bool = kani::any();
    let which: u8 = kani::any();
    let d = match which % 4 {
        0 => Difficulty::new().ar(v, w).get_ar(),
        1 => Difficulty::new().cs(v, w).get_cs(),
        2 => Difficulty::new().hp(v, w).get_hp(),
        _ => Difficulty::new().od(v, w).get_od(),
    };
    let md = d.unwrap();
    assert!(md.with_mods == w, "C18 with_mods flag stored");
    if !v.is_nan() {
        assert!(md.value >= -20.0 && md.value <= 20.0, "C18 attribute override clamped to [-20, 20]");
        if v >= -20.0 && v <= 20.0 {
            assert!(md.value.to_bits() == v.to_bits(), "C18 attribute override in range kept");
        }
    }
}
