//@ unit: banana
//@ target: src/catch/object/banana_shower.rs
use super::*;

//@ obl: id=U14.banana.realistic harness=u14_banana_realistic props=C05 tier=quick kind=proof unwind=obligation
//@ fns: BananaShower::new
//@ bound: start in [0, 1.08e7] ms (3 h), duration in [0, 800] ms, any f64 in between; unwind 30 certified by the unwinding assertions (both loops provably finish within the bound) - bounded in the duration only
//@ clause: on the realistic domain BananaShower::new terminates (spacing-halving loop <= 4 iterations, banana loop <= 18 iterations), without i32/usize overflow, and n_bananas <= 18; a spinner with zero or negative truncated length yields no bananas
#[kani::proof]
#[kani::unwind(30)]
fn u14_banana_realistic() {
    let start: f64 = kani::any();
    let dur: f64 = kani::any();
    kani::assume(start >= 0.0 && start <= 1.08e7 && dur >= 0.0 && dur <= 800.0);
    let b = BananaShower::new(start, start + dur);
    assert!(b.n_bananas <= 18, "C05 banana count bounded");
    if (start + dur) as i32 <= start as i32 {
        assert!(b.n_bananas == 0, "C05 empty spinner has no bananas");
    }
}
