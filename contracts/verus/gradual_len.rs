//@ unit: gradual_len_v
//@ assume: opaque external types for the fields `len()` does not read; R4: Box<[T]> fields verified as Vec<T>
//@ assume: A-INV: mania: objects_is_circle.len() >= diff_objects.len()+1 when the map has objects (equal without a passed_objects limit), idx <= diff_objects.len()+1, empty map ==> idx == 0; taiko: idx <= total_hits (healthy class, see F3/F4) - established by `new`, not proved
//@ obl: id=U12.mania.len.verus fn=ManiaGradualDifficulty::len props=C15,C05 tier=quick kind=proof twin=yes pair=U12.mania.protocol.limited
//@ fns: ManiaGradualDifficulty::len (ExactSizeIterator::len)
//@ bound: unbounded: every object count and position
//@ clause: for ALL N: under the invariant len() == number of difficulty objects + 1 - idx (the values still to come), 0 for maps without objects; no underflow / overflow
//@ obl: id=U12.taiko.len.verus fn=TaikoGradualDifficulty::len props=C15,C05 tier=quick kind=proof twin=yes
//@ fns: TaikoGradualDifficulty::len (ExactSizeIterator::len)
//@ bound: unbounded
//@ clause: for ALL maps of the healthy class: under idx <= total_hits, len() == total_hits - idx without underflow
use vstd::prelude::*;
verus! {
global size_of usize == 8;

#[verifier::external_body] pub struct Difficulty { _p: () }
#[verifier::external_body] pub struct Strain { _p: () }
#[verifier::external_body] pub struct ManiaDifficultyObject { _p: () }
#[verifier::external_body] pub struct NoteState { _p: () }
#[verifier::external_body] pub struct TaikoDifficultyAttributes { _p: () }
#[verifier::external_body] pub struct TaikoDifficultyObjects { _p: () }
#[verifier::external_body] pub struct TaikoDifficultyObject { _p: () }
#[verifier::external_body] pub struct TaikoSkills { _p: () }
#[verifier::external_body] pub struct FirstTwoCombos { _p: () }
#[verifier::external_body] #[verifier::reject_recursive_types(T)] pub struct RefCount<T> { _p: core::marker::PhantomData<T> }
#[verifier::external_body] #[verifier::reject_recursive_types(T)] pub struct Iter<'a, T> { _p: core::marker::PhantomData<&'a T> }

/*@extract struct file=src/mania/difficulty/gradual.rs name=ManiaGradualDifficulty */

impl ManiaGradualDifficulty {
    pub closed spec fn inv(&self) -> bool {
        &&& (self.objects_is_circle@.len() > 0 ==> self.objects_is_circle@.len() >= self.diff_objects@.len() + 1)
        &&& self.idx <= self.diff_objects@.len() + 1
        &&& (self.objects_is_circle@.len() == 0 ==> self.idx == 0 && self.diff_objects@.len() == 0)
        &&& self.diff_objects@.len() < usize::MAX
    }
    pub closed spec fn remaining(&self) -> int {
        if self.objects_is_circle@.len() == 0 { 0 } else { self.diff_objects@.len() + 1 - self.idx }
    }

/*@extract fn file=src/mania/difficulty/gradual.rs impl=ExactSizeIterator for=ManiaGradualDifficulty name=len ret=r
@spec
        requires self.inv()
        ensures r == self.remaining()
*/
}

/*@extract struct file=src/taiko/difficulty/gradual.rs name=TaikoGradualDifficulty */

impl TaikoGradualDifficulty {
    pub closed spec fn inv(&self) -> bool { self.idx <= self.total_hits }
    pub closed spec fn remaining(&self) -> int { self.total_hits - self.idx }

/*@extract fn file=src/taiko/difficulty/gradual.rs impl=ExactSizeIterator for=TaikoGradualDifficulty name=len ret=r
@spec
        requires self.inv()
        ensures r == self.remaining()
*/
}

} // verus!
fn main() {}
