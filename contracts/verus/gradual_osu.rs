//@ unit: gradual_osu_v
//@ assume: opaque external types (Difficulty, GameMods, OsuDifficultyAttributes, OsuObject, OsuObjects, the four skills, NotClonable) and external_body contracts for the callees of `next`: skill `process` and DifficultyValues::eval do not touch the calculator's bookkeeping; `increment_combo` counts exactly one more object (the real function is exercised by Kani in U12.osu.protocol.*); clone() preserves the counted view; OsuObjects::is_empty() reports whether the map has no objects
//@ assume: data shapes declared by hand (fields only, no logic): OsuSkills {aim, aim_no_sliders, speed, flashlight}, OsuDifficultyObject {base}; R4: `diff_objects: Box<[..]>` verified as Vec; `Self::Item` written out as OsuDifficultyAttributes
//@ assume: A-INV: the invariant `diff_objects.len() == max(N,1)-1, idx <= diff_objects.len()+1, N == 0 ==> idx == 0` (N = number of hit objects) is established by `new` (not proved)
//@ obl: id=U12.osu.next.verus fn=OsuGradualDifficulty::next props=C15,C02,C05 tier=quick kind=proof twin=yes pair=U12.osu.protocol.n2
//@ fns: OsuGradualDifficulty::next (Iterator::next)
//@ bound: unbounded: every number of hit objects N, every position idx
//@ clause: for ALL N: pre: invariant. post: Some iff idx < N; then idx' = idx+1, the attributes count exactly one more object unless this is the first value (whose object `new` counted up front); else the calculator is unchanged; invariant preserved; diff_objects[idx-1] in bounds; no overflow
//@ obl: id=U12.osu.len.verus fn=OsuGradualDifficulty::len props=C15,C05 tier=quick kind=proof twin=yes pair=U12.osu.protocol.n1
//@ fns: OsuGradualDifficulty::len (ExactSizeIterator::len)
//@ bound: unbounded
//@ clause: for ALL N: under the invariant len() == N - idx, without underflow; 0 for maps without objects
use vstd::prelude::*;
verus! {
global size_of usize == 8;

#[verifier::external_body] pub struct Difficulty { _p: () }
#[verifier::external_body] pub struct GameMods { _p: () }
#[verifier::external_body] pub struct OsuDifficultyAttributes { _p: () }
#[verifier::external_body] pub struct OsuObject { _p: () }
#[verifier::external_body] pub struct OsuObjects { _p: () }
#[verifier::external_body] pub struct Aim { _p: () }
#[verifier::external_body] pub struct Speed { _p: () }
#[verifier::external_body] pub struct Flashlight { _p: () }
pub struct NotClonable;
pub struct DifficultyValues { }
pub struct OsuSkills { pub aim: Aim, pub aim_no_sliders: Aim, pub speed: Speed, pub flashlight: Flashlight }
pub struct OsuDifficultyObject<'a> { pub base: &'a OsuObject }

/// abstract view: number of hit objects counted into the attributes / number of hit objects of the map
pub uninterp spec fn counted(a: OsuDifficultyAttributes) -> nat;
pub uninterp spec fn n_objects(o: OsuObjects) -> nat;

impl OsuObjects {
    #[verifier::external_body]
    fn is_empty(&self) -> (r: bool)
        ensures r == (n_objects(*self) == 0)
    { unimplemented!() }
}
impl Clone for OsuDifficultyAttributes {
    #[verifier::external_body]
    fn clone(&self) -> (r: Self)
        ensures counted(r) == counted(*self)
    { unimplemented!() }
}
impl Difficulty {
    #[verifier::external_body]
    fn get_mods(&self) -> &GameMods { unimplemented!() }
}
impl Aim {
    #[verifier::external_body]
    fn process<'a>(&mut self, curr: &OsuDifficultyObject<'a>, objects: &Vec<OsuDifficultyObject<'a>>) { unimplemented!() }
}
impl Speed {
    #[verifier::external_body]
    fn process<'a>(&mut self, curr: &OsuDifficultyObject<'a>, objects: &Vec<OsuDifficultyObject<'a>>) { unimplemented!() }
}
impl Flashlight {
    #[verifier::external_body]
    fn process<'a>(&mut self, curr: &OsuDifficultyObject<'a>, objects: &Vec<OsuDifficultyObject<'a>>) { unimplemented!() }
}
impl DifficultyValues {
    #[verifier::external_body]
    fn eval(attrs: &mut OsuDifficultyAttributes, mods: &GameMods, skills: &OsuSkills)
        ensures counted(*final(attrs)) == counted(*old(attrs))
    { unimplemented!() }
}

/*@extract struct file=src/osu/difficulty/gradual.rs name=OsuGradualDifficulty */

impl OsuGradualDifficulty {
    #[verifier::external_body]
    fn increment_combo(h: &OsuObject, attrs: &mut OsuDifficultyAttributes)
        ensures counted(*final(attrs)) == counted(*old(attrs)) + 1
    { unimplemented!() }

    pub closed spec fn n(&self) -> int { n_objects(self.osu_objects) as int }

    pub closed spec fn inv(&self) -> bool {
        &&& self.diff_objects@.len() + 1 == (if self.n() == 0 { 1 } else { self.n() })
        &&& self.idx <= self.diff_objects@.len() + 1
        &&& (self.n() == 0 ==> self.idx == 0)
        // allocation limit: a Vec of non-zero-sized elements holds at most isize::MAX of them
        &&& self.diff_objects@.len() < usize::MAX
    }
    pub closed spec fn remaining(&self) -> int { self.n() - self.idx }

/*@extract fn file=src/osu/difficulty/gradual.rs impl=Iterator for=OsuGradualDifficulty name=next ret=r subst=Self::Item=>OsuDifficultyAttributes
@spec
        requires old(self).inv()
        ensures
            final(self).inv(),
            final(self).n() == old(self).n(),
            r.is_some() <==> old(self).remaining() > 0,
            r.is_some() ==> final(self).idx == old(self).idx + 1
                && counted(final(self).attrs) == counted(old(self).attrs) + (if old(self).idx == 0 { 0nat } else { 1nat })
                && counted(r.unwrap()) == counted(final(self).attrs),
            r.is_none() ==> final(self).idx == old(self).idx && counted(final(self).attrs) == counted(old(self).attrs),
*/

/*@extract fn file=src/osu/difficulty/gradual.rs impl=ExactSizeIterator for=OsuGradualDifficulty name=len ret=r
@spec
        requires self.inv()
        ensures r == self.remaining()
*/
}

} // verus!
fn main() {}
