//@ unit: gradual_osu_v
//@ assume: opaque external types (Difficulty, GameMods, OsuDifficultyAttributes, OsuObject, OsuObjects, the four skills, NotClonable) and external_body contracts for the callees of `next`: skill `process` and DifficultyValues::eval do not touch the calculator's bookkeeping; `increment_combo` counts exactly one more object (the real function is exercised by Kani in U12.osu.protocol.*); clone() preserves the counted view; OsuObjects::is_empty() reports whether the map has no objects
//@ assume: data shapes declared by hand (fields only, no logic): OsuSkills {aim, aim_no_sliders, speed, flashlight}, OsuDifficultyObject {base}; R4: `diff_objects: Box<[..]>` verified as Vec; `Self::Item` written out as OsuDifficultyAttributes
//@ assume: A-INV: the invariant `diff_objects.len() == max(N,1)-1, idx <= diff_objects.len()+1, N == 0 ==> idx == 0` (N = number of hit objects) is established by `new` (not proved)
//@ obl: id=U12.osu.next.verus fn=OsuGradualDifficulty::next props=C15,C02,C05 tier=quick kind=proof twin=yes pair=U12.osu.protocol.n2
//@ fns: OsuGradualDifficulty::next (Iterator::next)
//@ bound: unbounded: every number of hit objects N, every position idx
//@ clause: for ALL N: pre: invariant. post: Some iff idx < N; then idx' = idx+1, the attributes count exactly one more object unless this is the first value (whose object `new` counted up front); else the calculator is unchanged; invariant preserved; diff_objects[idx-1] in bounds; no overflow
//@ obl: id=U12.osu.nth.verus fn=OsuGradualDifficulty::nth props=C15,C02,C05 tier=quick kind=proof twin=yes pair=U12.osu.protocol.n2
//@ fns: OsuGradualDifficulty::nth (Iterator::nth)
//@ bound: unbounded: every number of hit objects, every position, every n (incl. usize::MAX)
//@ clause: for ALL N and n: pre: invariant. post: Some iff n < remaining; exactly min(n+1, remaining) values are consumed; the attributes count exactly one more object per consumed object other than the first (so nth(n) counts the same objects as n+1 calls of next()); invariant preserved; indices in bounds; no overflow
//@ assume: R10: slice.iter().skip(S).take(T) visits the elements S, S+1, ... while in range, at most T of them; R11: Option::filter with a constant predicate; `cmp::min` on usize is a local verified definition
//@ obl: id=U12.osu.perf.verus fn=OsuGradualPerformance::nth props=C15,C03,C05 tier=quick kind=proof twin=yes pair=U12.osu.perf.n2
//@ fns: OsuGradualPerformance::nth, OsuGradualPerformance::next, OsuGradualPerformance::last, OsuGradualPerformance::len
//@ bound: unbounded; modular: checked against the contract of OsuGradualDifficulty::nth proved in the same unit, not its body
//@ clause: for ALL N and n: the gradual performance calculator's nth(state, n) consumes exactly min(n+1, remaining) objects and returns None exactly when nothing remains; next == nth(0); last == nth(usize::MAX) consumes everything; len() == remaining
//@ assume: the performance builder chain (performance/lazer/state/difficulty/passed_objects/calculate) is declared as external_body functions: calculate() returns Ok (own-mode attributes need no conversion); what the builder receives is obligation U12.osu.perf.* (Kani)
//@ obl: id=U12.osu.len.verus fn=OsuGradualDifficulty::len props=C15,C05 tier=quick kind=proof twin=yes pair=U12.osu.protocol.n1
//@ fns: OsuGradualDifficulty::len (ExactSizeIterator::len)
//@ bound: unbounded
//@ clause: for ALL N: under the invariant len() == N - idx, without underflow; 0 for maps without objects
use vstd::prelude::*;
verus! {
global size_of usize == 8;

#[verifier::external_body] pub struct Difficulty { _p: () }
#[verifier::external_body] pub struct GameMods { _p: () }
#[verifier::external_body] pub struct OsuDifficultyAttributes { _p: () }
#[verifier::external_body] pub struct OsuObject { _p: () }
#[verifier::external_body] pub struct OsuObjects { _p: () }
#[verifier::external_body] pub struct Aim { _p: () }
#[verifier::external_body] pub struct Speed { _p: () }
#[verifier::external_body] pub struct Flashlight { _p: () }
pub struct NotClonable;
pub struct DifficultyValues { }
pub struct OsuSkills { pub aim: Aim, pub aim_no_sliders: Aim, pub speed: Speed, pub flashlight: Flashlight }
pub struct OsuDifficultyObject<'a> { pub base: &'a OsuObject }

/// abstract view: number of hit objects counted into the attributes / number of hit objects of the map
pub uninterp spec fn counted(a: OsuDifficultyAttributes) -> nat;
pub uninterp spec fn n_objects(o: OsuObjects) -> nat;

impl OsuObjects {
    #[verifier::external_body]
    fn is_empty(&self) -> (r: bool)
        ensures r == (n_objects(*self) == 0)
    { unimplemented!() }
}
impl Clone for OsuDifficultyAttributes {
    #[verifier::external_body]
    fn clone(&self) -> (r: Self)
        ensures counted(r) == counted(*self)
    { unimplemented!() }
}
impl Difficulty {
    #[verifier::external_body]
    fn get_mods(&self) -> &GameMods { unimplemented!() }
}
impl Aim {
    #[verifier::external_body]
    fn process<'a>(&mut self, curr: &OsuDifficultyObject<'a>, objects: &Vec<OsuDifficultyObject<'a>>) { unimplemented!() }
}
impl Speed {
    #[verifier::external_body]
    fn process<'a>(&mut self, curr: &OsuDifficultyObject<'a>, objects: &Vec<OsuDifficultyObject<'a>>) { unimplemented!() }
}
impl Flashlight {
    #[verifier::external_body]
    fn process<'a>(&mut self, curr: &OsuDifficultyObject<'a>, objects: &Vec<OsuDifficultyObject<'a>>) { unimplemented!() }
}
impl OsuSkills {
    #[verifier::external_body]
    fn process<'a>(&mut self, curr: &OsuDifficultyObject<'a>, objects: &Vec<OsuDifficultyObject<'a>>) { unimplemented!() }
}
/// std::cmp::min on usize (verified local definition; the extracted code calls `cmp::min`)
pub mod cmp {
    use vstd::prelude::*;
    pub fn min(a: usize, b: usize) -> (r: usize)
        ensures r == if a <= b { a } else { b }
    { if a <= b { a } else { b } }
}
impl DifficultyValues {
    #[verifier::external_body]
    fn eval(attrs: &mut OsuDifficultyAttributes, mods: &GameMods, skills: &OsuSkills)
        ensures counted(*final(attrs)) == counted(*old(attrs))
    { unimplemented!() }
}

#[verifier::external_body] pub struct OsuScoreState { _p: () }
#[verifier::external_body] pub struct OsuPerformanceAttributes { _p: () }
#[verifier::external_body] pub struct OsuPerformance { _p: () }
#[verifier::external_body] #[derive(Debug)] pub struct ConvertError { _p: () }

impl Clone for Difficulty {
    #[verifier::external_body]
    fn clone(&self) -> Self { unimplemented!() }
}
impl OsuDifficultyAttributes {
    #[verifier::external_body]
    fn performance(self) -> OsuPerformance { unimplemented!() }
}
impl OsuPerformance {
    #[verifier::external_body]
    fn lazer(self, lazer: bool) -> (r: Self) { unimplemented!() }
    #[verifier::external_body]
    fn state(self, state: OsuScoreState) -> (r: Self) { unimplemented!() }
    #[verifier::external_body]
    fn difficulty(self, difficulty: Difficulty) -> (r: Self) { unimplemented!() }
    #[verifier::external_body]
    fn passed_objects(self, passed_objects: u32) -> (r: Self) { unimplemented!() }
    #[verifier::external_body]
    fn calculate(self) -> (r: Result<OsuPerformanceAttributes, ConvertError>)
        ensures r.is_ok()
    { unimplemented!() }
}

/*@extract struct file=src/osu/difficulty/gradual.rs name=OsuGradualDifficulty */

impl OsuGradualDifficulty {
    #[verifier::external_body]
    fn increment_combo(h: &OsuObject, attrs: &mut OsuDifficultyAttributes)
        ensures counted(*final(attrs)) == counted(*old(attrs)) + 1
    { unimplemented!() }

    pub closed spec fn n(&self) -> int { n_objects(self.osu_objects) as int }

    pub closed spec fn inv(&self) -> bool {
        &&& self.diff_objects@.len() + 1 == (if self.n() == 0 { 1 } else { self.n() })
        &&& self.idx <= self.diff_objects@.len() + 1
        &&& (self.n() == 0 ==> self.idx == 0)
        // allocation limit: a Vec of non-zero-sized elements holds at most isize::MAX of them
        &&& self.diff_objects@.len() < usize::MAX
    }
    pub closed spec fn remaining(&self) -> int { self.n() - self.idx }

/*@extract fn file=src/osu/difficulty/gradual.rs impl=Iterator for=OsuGradualDifficulty name=next ret=r subst=Self::Item=>OsuDifficultyAttributes
@spec
        requires old(self).inv()
        ensures
            final(self).inv(),
            final(self).n() == old(self).n(),
            r.is_some() <==> old(self).remaining() > 0,
            r.is_some() ==> final(self).idx == old(self).idx + 1
                && counted(final(self).attrs) == counted(old(self).attrs) + (if old(self).idx == 0 { 0nat } else { 1nat })
                && counted(r.unwrap()) == counted(final(self).attrs),
            r.is_none() ==> final(self).idx == old(self).idx && counted(final(self).attrs) == counted(old(self).attrs),
*/

/*@extract fn file=src/osu/difficulty/gradual.rs impl=Iterator for=OsuGradualDifficulty name=nth ret=r subst=Self::Item=>OsuDifficultyAttributes
@spec
        requires old(self).inv()
        ensures
            final(self).inv(),
            final(self).n() == old(self).n(),
            r.is_some() <==> n < old(self).remaining(),
            final(self).idx == old(self).idx + (if n < old(self).remaining() { n + 1 } else { old(self).remaining() }),
            // every consumed object other than the very first one (counted by `new`) is counted once
            counted(final(self).attrs) + (if old(self).idx == 0 && final(self).idx > 0 { 1nat } else { 0nat })
                == counted(old(self).attrs) + (final(self).idx - old(self).idx),
            r.is_some() ==> counted(r.unwrap()) == counted(final(self).attrs),
@loop 1
            invariant
                self.inv(),
                self.n() == old(self).n(),
                self.diff_objects@.len() == old(self).diff_objects@.len(),
                old(self).idx <= self.idx,
                __skip_iter_k + 1 == self.idx || __skip_iter_take == 0,
                self.idx + (__skip_iter_take - __skip_iter_c) == old(self).idx + take0,
                __skip_iter_c <= __skip_iter_take,
                take0 == 0 || old(self).idx + take0 <= old(self).n() - 1,
                take0 as int == (if n < old(self).remaining() - 1 { n as int } else if old(self).remaining() == 0 { 0 } else { old(self).remaining() - 1 }),
                counted(self.attrs) + (if old(self).idx == 0 && self.idx > 0 { 1nat } else { 0nat })
                    == counted(old(self).attrs) + (self.idx - old(self).idx),
            decreases __skip_iter_take - __skip_iter_c
@before 1 `if self.idx == 0 && take > 0 {`
        let ghost take0 = take;
*/

/*@extract fn file=src/osu/difficulty/gradual.rs impl=ExactSizeIterator for=OsuGradualDifficulty name=len ret=r
@spec
        requires self.inv()
        ensures r == self.remaining()
*/
}

/*@extract struct file=src/osu/performance/gradual.rs name=OsuGradualPerformance */

impl OsuGradualPerformance {
/*@extract fn file=src/osu/performance/gradual.rs impl=OsuGradualPerformance name=nth ret=r
@spec
        requires old(self).difficulty.inv()
        ensures
            final(self).difficulty.inv(),
            r.is_some() <==> old(self).difficulty.remaining() > 0,
            final(self).difficulty.idx == old(self).difficulty.idx
                + (if n < old(self).difficulty.remaining() { n + 1 } else { old(self).difficulty.remaining() }),
            final(self).difficulty.remaining() == old(self).difficulty.remaining() - (final(self).difficulty.idx - old(self).difficulty.idx),
*/

/*@extract fn file=src/osu/performance/gradual.rs impl=OsuGradualPerformance name=next ret=r
@spec
        requires old(self).difficulty.inv()
        ensures
            final(self).difficulty.inv(),
            r.is_some() <==> old(self).difficulty.remaining() > 0,
            final(self).difficulty.idx == old(self).difficulty.idx + (if old(self).difficulty.remaining() > 0 { 1int } else { 0int }),
*/

/*@extract fn file=src/osu/performance/gradual.rs impl=OsuGradualPerformance name=last ret=r
@spec
        requires old(self).difficulty.inv()
        ensures
            final(self).difficulty.inv(),
            r.is_some() <==> old(self).difficulty.remaining() > 0,
            final(self).difficulty.remaining() == 0,
*/

/*@extract fn file=src/osu/performance/gradual.rs impl=OsuGradualPerformance name=len ret=r
@spec
        requires self.difficulty.inv()
        ensures r == self.difficulty.remaining()
*/
}

} // verus!
fn main() {}
