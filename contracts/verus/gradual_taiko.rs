//@ unit: gradual_taiko_v
//@ assume: opaque external types (Difficulty, GameMods, TaikoDifficultyObjects, the skill types, the slice iterator) with external_body contracts: skill `process` / eval / clone do not touch the bookkeeping; the slice iterator `diff_objects_iter` is modelled by its fixed underlying sequence of hit flags and a position (std semantics of slice::Iter::next, assumed); RefCount::get hands out the object (type abstraction: `Ref<'_, T>` is treated as `&T`)
//@ assume: data shapes declared by hand (fields only): TaikoDifficultyAttributes {max_combo, ..}, TaikoDifficultyObject {base_hit_type}, TaikoSkills {rhythm, reading, color, stamina, single_color_stamina}; `Self::Item` written out
//@ assume: A-INV (healthy class: at least three objects, the first two are hits): idx <= total_hits; while idx < 2 the iterator is at 0, first_combos is Both and total_hits == 2 + hits among the difficulty objects; from idx == 2 on total_hits - idx == hits still ahead of the iterator; max_combo == idx. Established by `new` for such maps (not proved). Maps outside this class are the known findings F3 / F4.
//@ obl: id=U12.taiko.next.verus fn=TaikoGradualDifficulty::next props=C15,C02,C05 tier=quick kind=proof twin=yes pair=U12.taiko.protocol.hhh
//@ fns: TaikoGradualDifficulty::next (Iterator::next), HitType::is_hit
//@ bound: unbounded: every number of objects and every hit / non-hit pattern of the healthy class, every position
//@ clause: for ALL such maps: pre: invariant. post: Some iff idx < total_hits; then idx' = idx+1 and max_combo' = idx' (the i-th value has max_combo == i: taiko max combo equals the number of hits), non-hits are skipped without producing a value; else idx is unchanged; invariant preserved; the iterator never runs past the end with hits still owed; no overflow
use vstd::prelude::*;
verus! {
global size_of usize == 8;

#[verifier::external_body] pub struct Difficulty { _p: () }
#[verifier::external_body] pub struct GameMods { _p: () }
#[verifier::external_body] pub struct TaikoDifficultyObjects { _p: () }
#[verifier::external_body] pub struct Rhythm { _p: () }
#[verifier::external_body] pub struct Reading { _p: () }
#[verifier::external_body] pub struct Color { _p: () }
#[verifier::external_body] pub struct Stamina { _p: () }
#[verifier::external_body] pub struct AttrsRest { _p: () }
#[verifier::external_body] #[verifier::reject_recursive_types(T)] pub struct RefCount<T> { _p: core::marker::PhantomData<T> }
#[verifier::external_body] #[verifier::reject_recursive_types(T)] pub struct Iter<'a, T> { _p: core::marker::PhantomData<&'a T> }
pub struct DifficultyValues { }
pub struct TaikoSkills { pub rhythm: Rhythm, pub reading: Reading, pub color: Color, pub stamina: Stamina, pub single_color_stamina: Stamina }
pub struct TaikoDifficultyAttributes { pub max_combo: u32, pub rest: AttrsRest }
pub struct TaikoDifficultyObject { pub base_hit_type: HitType }

#[derive(Copy, Clone)]
/*@extract enum file=src/taiko/object.rs name=HitType */
#[derive(Copy, Clone)]
/*@extract enum file=src/taiko/difficulty/gradual.rs name=FirstTwoCombos */

impl HitType {
/*@extract fn file=src/taiko/object.rs impl=HitType name=is_hit ret=r
@spec
        ensures r == (self != HitType::NonHit)
*/
}

/// model of the slice iterator: the hit flags of the underlying difficulty objects (fixed) and the position
pub uninterp spec fn it_seq(it: Iter<'static, RefCount<TaikoDifficultyObject>>) -> Seq<bool>;
pub uninterp spec fn it_pos(it: Iter<'static, RefCount<TaikoDifficultyObject>>) -> int;
pub uninterp spec fn rc_hit(rc: RefCount<TaikoDifficultyObject>) -> bool;
pub uninterp spec fn n_diff(o: TaikoDifficultyObjects) -> int;

/// hits among seq[from..]
pub open spec fn hits_from(s: Seq<bool>, from: int) -> int
    decreases s.len() - from
{
    if from >= s.len() || from < 0 { 0 } else { (if s[from] { 1int } else { 0int }) + hits_from(s, from + 1) }
}
proof fn lemma_hits_nonneg(s: Seq<bool>, from: int)
    ensures hits_from(s, from) >= 0
    decreases s.len() - from
{
    if 0 <= from < s.len() { lemma_hits_nonneg(s, from + 1); }
}

impl Iter<'static, RefCount<TaikoDifficultyObject>> {
    #[verifier::external_body]
    fn next(&mut self) -> (r: Option<&'static RefCount<TaikoDifficultyObject>>)
        requires 0 <= it_pos(*old(self)) <= it_seq(*old(self)).len()
        ensures
            it_seq(*final(self)) == it_seq(*old(self)),
            it_pos(*old(self)) < it_seq(*old(self)).len() ==> r.is_some() && it_pos(*final(self)) == it_pos(*old(self)) + 1
                && rc_hit(*r.unwrap()) == it_seq(*old(self))[it_pos(*old(self))],
            it_pos(*old(self)) >= it_seq(*old(self)).len() ==> r.is_none() && it_pos(*final(self)) == it_pos(*old(self)),
    { unimplemented!() }
}
impl RefCount<TaikoDifficultyObject> {
    #[verifier::external_body]
    fn get(&self) -> (r: &TaikoDifficultyObject)
        ensures (r.base_hit_type != HitType::NonHit) == rc_hit(*self)
    { unimplemented!() }
}
impl TaikoDifficultyObjects {
    #[verifier::external_body]
    fn is_empty(&self) -> (r: bool)
        ensures r == (n_diff(*self) == 0)
    { unimplemented!() }
}
impl Difficulty {
    #[verifier::external_body]
    fn get_mods(&self) -> &GameMods { unimplemented!() }
}
impl GameMods {
    #[verifier::external_body]
    fn rx(&self) -> bool { unimplemented!() }
}
impl Rhythm { #[verifier::external_body] fn process(&mut self, curr: &TaikoDifficultyObject, objects: &TaikoDifficultyObjects) { unimplemented!() } }
impl Reading { #[verifier::external_body] fn process(&mut self, curr: &TaikoDifficultyObject, objects: &TaikoDifficultyObjects) { unimplemented!() } }
impl Color { #[verifier::external_body] fn process(&mut self, curr: &TaikoDifficultyObject, objects: &TaikoDifficultyObjects) { unimplemented!() } }
impl Stamina { #[verifier::external_body] fn process(&mut self, curr: &TaikoDifficultyObject, objects: &TaikoDifficultyObjects) { unimplemented!() } }
impl Clone for TaikoSkills {
    #[verifier::external_body]
    fn clone(&self) -> Self { unimplemented!() }
}
impl Clone for TaikoDifficultyAttributes {
    #[verifier::external_body]
    fn clone(&self) -> (r: Self)
        ensures r.max_combo == self.max_combo
    { unimplemented!() }
}
impl DifficultyValues {
    #[verifier::external_body]
    fn eval(attrs: &mut TaikoDifficultyAttributes, skills: TaikoSkills, is_relax: bool)
        ensures final(attrs).max_combo == old(attrs).max_combo
    { unimplemented!() }
}

/*@extract struct file=src/taiko/difficulty/gradual.rs name=TaikoGradualDifficulty */

impl TaikoGradualDifficulty {
    pub closed spec fn inv(&self) -> bool {
        let s = it_seq(self.diff_objects_iter);
        let p = it_pos(self.diff_objects_iter);
        &&& 0 <= p <= s.len()
        &&& n_diff(self.diff_objects) == s.len() && s.len() >= 1
        &&& self.idx <= self.total_hits
        &&& self.total_hits < u32::MAX
        &&& self.attrs.max_combo as int == self.idx
        &&& self.first_combos is Both
        &&& (self.idx < 2 ==> p == 0 && self.total_hits == 2 + hits_from(s, 0))
        &&& (self.idx >= 2 ==> self.total_hits - self.idx == hits_from(s, p))
    }
    pub closed spec fn remaining(&self) -> int { self.total_hits - self.idx }

/*@extract fn file=src/taiko/difficulty/gradual.rs impl=Iterator for=TaikoGradualDifficulty name=next ret=r subst=Self::Item=>TaikoDifficultyAttributes
@spec
        requires old(self).inv()
        ensures
            final(self).inv(),
            final(self).total_hits == old(self).total_hits,
            r.is_some() <==> old(self).remaining() > 0,
            r.is_some() ==> final(self).idx == old(self).idx + 1 && r.unwrap().max_combo as int == final(self).idx,
            r.is_none() ==> final(self).idx == old(self).idx,
@start
        proof { lemma_hits_nonneg(it_seq(self.diff_objects_iter), it_pos(self.diff_objects_iter)); lemma_hits_nonneg(it_seq(self.diff_objects_iter), 0); }
@loop 1
                invariant_except_break
                    self.attrs.max_combo as int == self.idx,
                    self.total_hits - self.idx == hits_from(it_seq(self.diff_objects_iter), it_pos(self.diff_objects_iter)),
                invariant
                    self.idx == old(self).idx, self.idx >= 2,
                    self.total_hits == old(self).total_hits, self.total_hits < u32::MAX,
                    self.first_combos == old(self).first_combos,
                    self.first_combos is Both,
                    it_seq(self.diff_objects_iter) == it_seq(old(self).diff_objects_iter),
                    n_diff(self.diff_objects) == it_seq(self.diff_objects_iter).len(), it_seq(self.diff_objects_iter).len() >= 1,
                    0 <= it_pos(self.diff_objects_iter) <= it_seq(self.diff_objects_iter).len(),
                ensures
                    self.attrs.max_combo as int == self.idx + 1,
                    self.total_hits - self.idx - 1 == hits_from(it_seq(self.diff_objects_iter), it_pos(self.diff_objects_iter)),
                decreases it_seq(self.diff_objects_iter).len() - it_pos(self.diff_objects_iter)
@before 1 `self.idx += 1;`
        proof { lemma_hits_nonneg(it_seq(self.diff_objects_iter), it_pos(self.diff_objects_iter)); lemma_hits_nonneg(it_seq(self.diff_objects_iter), 0); }
@before 1 `let curr = self.diff_objects_iter.next()?;`
                proof { lemma_hits_nonneg(it_seq(self.diff_objects_iter), it_pos(self.diff_objects_iter) + 1); }
*/
}

} // verus!
fn main() {}
