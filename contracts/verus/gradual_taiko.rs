//@ unit: gradual_taiko_v
//@ assume: opaque external types (Difficulty, GameMods, TaikoDifficultyObjects, the skill types, the slice iterator) with external_body contracts: skill `process` / eval / clone do not touch the bookkeeping; the slice iterator `diff_objects_iter` is modelled by its fixed underlying sequence of hit flags and a position (std semantics of slice::Iter::next, assumed); RefCount::get hands out the object (type abstraction: `Ref<'_, T>` is treated as `&T`)
//@ assume: data shapes declared by hand (fields only): TaikoDifficultyAttributes {max_combo, ..}, TaikoDifficultyObject {base_hit_type}, TaikoSkills {rhythm, reading, color, stamina, single_color_stamina}; `Self::Item` written out
//@ assume: A-INV (healthy class: at least three objects, the first two are hits): idx <= total_hits; while idx < 2 the iterator is at 0, first_combos is Both and total_hits == 2 + hits among the difficulty objects; from idx == 2 on total_hits - idx == hits still ahead of the iterator; max_combo == idx. Established by `new` for such maps (not proved). Maps outside this class are the known findings F3 / F4.
//@ obl: id=U12.taiko.nth.verus fn=TaikoGradualDifficulty::nth props=C15,C02,C05 tier=quick kind=proof twin=yes pair=U12.taiko.protocol.hhh
//@ fns: TaikoGradualDifficulty::nth (Iterator::nth), TaikoGradualDifficulty::len
//@ bound: unbounded: every map of the healthy class, every position, every n (incl. usize::MAX)
//@ clause: for ALL such maps and n: pre: invariant. post: Some iff n < remaining; exactly min(n+1, remaining) values are consumed; max_combo' == idx' (nth counts the same hits as n+1 calls of next()); the early `?` exits inside the skipping loops are unreachable while hits are still owed; invariant preserved; no overflow / underflow of `take`
//@ assume: R3 (for-range -> while), R11, local verified cmp::min
//@ obl: id=U12.taiko.next.verus fn=TaikoGradualDifficulty::next props=C15,C02,C05 tier=quick kind=proof twin=yes pair=U12.taiko.protocol.hhh
//@ fns: TaikoGradualDifficulty::next (Iterator::next), HitType::is_hit
//@ bound: unbounded: every number of objects and every hit / non-hit pattern of the healthy class, every position
//@ clause: for ALL such maps: pre: invariant. post: Some iff idx < total_hits; then idx' = idx+1 and max_combo' = idx' (the i-th value has max_combo == i: taiko max combo equals the number of hits), non-hits are skipped without producing a value; else idx is unchanged; invariant preserved; the iterator never runs past the end with hits still owed; no overflow
//@ obl: id=U12.taiko.perf.verus fn=TaikoGradualPerformance::nth props=C15,C03,C05 tier=quick kind=proof twin=yes pair=U12.taiko.perf.hhh
//@ fns: TaikoGradualPerformance::nth, TaikoGradualPerformance::next, TaikoGradualPerformance::last, TaikoGradualPerformance::len
//@ bound: unbounded (healthy class); modular: checked against the contract of TaikoGradualDifficulty::nth proved in the same unit, not its body
//@ clause: for ALL such maps and n: the gradual performance calculator's nth(state, n) consumes exactly min(n+1, remaining) values and returns None exactly when nothing remains; next == nth(0); last == nth(usize::MAX) consumes everything; len() == remaining
//@ assume: the performance builder chain (performance/state/difficulty/passed_objects/calculate) is declared as external_body functions: calculate() returns Ok (own-mode attributes need no conversion); what the builder receives is obligation U12.taiko.perf.hhh (Kani)
use vstd::prelude::*;
verus! {
global size_of usize == 8;

/// std::cmp::min on usize (verified local definition; the extracted code calls `cmp::min`)
pub mod cmp {
    use vstd::prelude::*;
    pub fn min(a: usize, b: usize) -> (r: usize)
        ensures r == if a <= b { a } else { b }
    { if a <= b { a } else { b } }
}

#[verifier::external_body] pub struct Difficulty { _p: () }
#[verifier::external_body] pub struct GameMods { _p: () }
#[verifier::external_body] pub struct TaikoDifficultyObjects { _p: () }
#[verifier::external_body] pub struct Rhythm { _p: () }
#[verifier::external_body] pub struct Reading { _p: () }
#[verifier::external_body] pub struct Color { _p: () }
#[verifier::external_body] pub struct Stamina { _p: () }
#[verifier::external_body] pub struct AttrsRest { _p: () }
#[verifier::external_body] #[verifier::reject_recursive_types(T)] pub struct RefCount<T> { _p: core::marker::PhantomData<T> }
#[verifier::external_body] #[verifier::reject_recursive_types(T)] pub struct Iter<'a, T> { _p: core::marker::PhantomData<&'a T> }
pub struct DifficultyValues { }
pub struct TaikoSkills { pub rhythm: Rhythm, pub reading: Reading, pub color: Color, pub stamina: Stamina, pub single_color_stamina: Stamina }
pub struct TaikoDifficultyAttributes { pub max_combo: u32, pub rest: AttrsRest }
pub struct TaikoDifficultyObject { pub base_hit_type: HitType }

#[derive(Copy, Clone)]
/*@extract enum file=src/taiko/object.rs name=HitType */
#[derive(Copy, Clone)]
/*@extract enum file=src/taiko/difficulty/gradual.rs name=FirstTwoCombos */

impl HitType {
/*@extract fn file=src/taiko/object.rs impl=HitType name=is_hit ret=r
@spec
        ensures r == (self != HitType::NonHit)
*/
}

/// model of the slice iterator: the hit flags of the underlying difficulty objects (fixed) and the position
pub uninterp spec fn it_seq(it: Iter<'static, RefCount<TaikoDifficultyObject>>) -> Seq<bool>;
pub uninterp spec fn it_pos(it: Iter<'static, RefCount<TaikoDifficultyObject>>) -> int;
pub uninterp spec fn rc_hit(rc: RefCount<TaikoDifficultyObject>) -> bool;
pub uninterp spec fn n_diff(o: TaikoDifficultyObjects) -> int;

/// hits among seq[from..]
pub open spec fn hits_from(s: Seq<bool>, from: int) -> int
    decreases s.len() - from
{
    if from >= s.len() || from < 0 { 0 } else { (if s[from] { 1int } else { 0int }) + hits_from(s, from + 1) }
}
proof fn lemma_hits_nonneg(s: Seq<bool>, from: int)
    ensures hits_from(s, from) >= 0
    decreases s.len() - from
{
    if 0 <= from < s.len() { lemma_hits_nonneg(s, from + 1); }
}

proof fn lemma_hits_end(s: Seq<bool>, from: int)
    requires from >= s.len()
    ensures hits_from(s, from) == 0
{}
proof fn lemma_hits_step(s: Seq<bool>, from: int)
    requires 0 <= from < s.len()
    ensures hits_from(s, from) == (if s[from] { 1int } else { 0int }) + hits_from(s, from + 1)
{}

impl Iter<'static, RefCount<TaikoDifficultyObject>> {
    #[verifier::external_body]
    fn next(&mut self) -> (r: Option<&'static RefCount<TaikoDifficultyObject>>)
        requires 0 <= it_pos(*old(self)) <= it_seq(*old(self)).len()
        ensures
            it_seq(*final(self)) == it_seq(*old(self)),
            it_pos(*old(self)) < it_seq(*old(self)).len() ==> r.is_some() && it_pos(*final(self)) == it_pos(*old(self)) + 1
                && rc_hit(*r.unwrap()) == it_seq(*old(self))[it_pos(*old(self))],
            it_pos(*old(self)) >= it_seq(*old(self)).len() ==> r.is_none() && it_pos(*final(self)) == it_pos(*old(self)),
    { unimplemented!() }
}
impl RefCount<TaikoDifficultyObject> {
    #[verifier::external_body]
    fn get(&self) -> (r: &TaikoDifficultyObject)
        ensures (r.base_hit_type != HitType::NonHit) == rc_hit(*self)
    { unimplemented!() }
}
impl TaikoDifficultyObjects {
    #[verifier::external_body]
    fn is_empty(&self) -> (r: bool)
        ensures r == (n_diff(*self) == 0)
    { unimplemented!() }
}
impl Difficulty {
    #[verifier::external_body]
    fn get_mods(&self) -> &GameMods { unimplemented!() }
}
impl GameMods {
    #[verifier::external_body]
    fn rx(&self) -> bool { unimplemented!() }
}
impl Rhythm { #[verifier::external_body] fn process(&mut self, curr: &TaikoDifficultyObject, objects: &TaikoDifficultyObjects) { unimplemented!() } }
impl Reading { #[verifier::external_body] fn process(&mut self, curr: &TaikoDifficultyObject, objects: &TaikoDifficultyObjects) { unimplemented!() } }
impl Color { #[verifier::external_body] fn process(&mut self, curr: &TaikoDifficultyObject, objects: &TaikoDifficultyObjects) { unimplemented!() } }
impl Stamina { #[verifier::external_body] fn process(&mut self, curr: &TaikoDifficultyObject, objects: &TaikoDifficultyObjects) { unimplemented!() } }
impl Clone for TaikoSkills {
    #[verifier::external_body]
    fn clone(&self) -> Self { unimplemented!() }
}
impl Clone for TaikoDifficultyAttributes {
    #[verifier::external_body]
    fn clone(&self) -> (r: Self)
        ensures r.max_combo == self.max_combo
    { unimplemented!() }
}
impl DifficultyValues {
    #[verifier::external_body]
    fn eval(attrs: &mut TaikoDifficultyAttributes, skills: TaikoSkills, is_relax: bool)
        ensures final(attrs).max_combo == old(attrs).max_combo
    { unimplemented!() }
}

#[verifier::external_body] pub struct TaikoScoreState { _p: () }
#[verifier::external_body] pub struct TaikoPerformanceAttributes { _p: () }
#[verifier::external_body] pub struct TaikoPerformance { _p: () }
#[verifier::external_body] #[derive(Debug)] pub struct ConvertError { _p: () }
impl Clone for Difficulty {
    #[verifier::external_body]
    fn clone(&self) -> Self { unimplemented!() }
}
impl TaikoDifficultyAttributes {
    #[verifier::external_body]
    fn performance(self) -> TaikoPerformance { unimplemented!() }
}
impl TaikoPerformance {
    #[verifier::external_body]
    fn state(self, state: TaikoScoreState) -> (r: Self) { unimplemented!() }
    #[verifier::external_body]
    fn difficulty(self, difficulty: Difficulty) -> (r: Self) { unimplemented!() }
    #[verifier::external_body]
    fn passed_objects(self, passed_objects: u32) -> (r: Self) { unimplemented!() }
    #[verifier::external_body]
    fn calculate(self) -> (r: Result<TaikoPerformanceAttributes, ConvertError>)
        ensures r.is_ok()
    { unimplemented!() }
}

/*@extract struct file=src/taiko/difficulty/gradual.rs name=TaikoGradualDifficulty */

impl TaikoGradualDifficulty {
    pub closed spec fn inv(&self) -> bool {
        let s = it_seq(self.diff_objects_iter);
        let p = it_pos(self.diff_objects_iter);
        &&& 0 <= p <= s.len()
        &&& n_diff(self.diff_objects) == s.len() && s.len() >= 1
        &&& self.idx <= self.total_hits
        &&& self.total_hits < u32::MAX
        &&& self.attrs.max_combo as int == self.idx
        &&& self.first_combos is Both
        &&& (self.idx < 2 ==> p == 0 && self.total_hits == 2 + hits_from(s, 0))
        &&& (self.idx >= 2 ==> self.total_hits - self.idx == hits_from(s, p))
    }
    pub closed spec fn remaining(&self) -> int { self.total_hits - self.idx }

/*@extract fn file=src/taiko/difficulty/gradual.rs impl=ExactSizeIterator for=TaikoGradualDifficulty name=len ret=r
@spec
        requires self.inv()
        ensures r == self.remaining()
*/

/*@extract fn file=src/taiko/difficulty/gradual.rs impl=Iterator for=TaikoGradualDifficulty name=nth ret=r subst=Self::Item=>TaikoDifficultyAttributes
@spec
        requires old(self).inv()
        ensures
            final(self).inv(),
            final(self).total_hits == old(self).total_hits,
            r.is_some() <==> n < old(self).remaining(),
            final(self).idx == old(self).idx + (if n < old(self).remaining() { n + 1 } else { old(self).remaining() }),
            r.is_some() ==> r.unwrap().max_combo as int == final(self).idx,
@start
        proof { lemma_hits_nonneg(it_seq(self.diff_objects_iter), it_pos(self.diff_objects_iter)); lemma_hits_nonneg(it_seq(self.diff_objects_iter), 0); }
@before 1 `match (take, self.idx) {`
        let ghost take0 = take;
@loop 1
            invariant
                self.inv(),
                self.total_hits == old(self).total_hits,
                it_seq(self.diff_objects_iter) == it_seq(old(self).diff_objects_iter),
                __for_i1 <= take,
                self.idx >= 2 || take == 0,
                self.idx + (take - __for_i1) == old(self).idx + take0,
                take0 as int == (if n < old(self).remaining() - 1 { n as int } else if old(self).remaining() == 0 { 0 } else { old(self).remaining() - 1 }),
                take0 == 0 || old(self).idx + take0 <= old(self).total_hits - 1,
            decreases take - __for_i1
@loop 2
                invariant_except_break
                    self.idx == idx_in, self.attrs.max_combo as int == self.idx,
                    self.idx + (take - __for_i1) == old(self).idx + take0,
                    self.total_hits - self.idx == hits_from(it_seq(self.diff_objects_iter), it_pos(self.diff_objects_iter)),
                invariant
                    self.idx >= 2,
                    self.total_hits == old(self).total_hits, self.total_hits < u32::MAX,
                    self.first_combos is Both,
                    it_seq(self.diff_objects_iter) == it_seq(old(self).diff_objects_iter),
                    n_diff(self.diff_objects) == it_seq(self.diff_objects_iter).len(), it_seq(self.diff_objects_iter).len() >= 1,
                    0 <= it_pos(self.diff_objects_iter) <= it_seq(self.diff_objects_iter).len(),
                    __for_i1 < take,
                    take0 == 0 || old(self).idx + take0 <= old(self).total_hits - 1,
                ensures
                    self.idx == idx_in + 1, self.attrs.max_combo as int == self.idx,
                    self.idx + (take - __for_i1) == old(self).idx + take0 + 1,
                    self.total_hits - self.idx == hits_from(it_seq(self.diff_objects_iter), it_pos(self.diff_objects_iter)),
                decreases it_seq(self.diff_objects_iter).len() - it_pos(self.diff_objects_iter)
@before 1 `loop {`
            let ghost idx_in = self.idx;
@before 1 `let curr = self.diff_objects_iter.next()?;`
                proof {
                    let s = it_seq(self.diff_objects_iter);
                    let p = it_pos(self.diff_objects_iter);
                    if p >= s.len() { lemma_hits_end(s, p); } else { lemma_hits_step(s, p); lemma_hits_nonneg(s, p + 1); }
                }
*/

/*@extract fn file=src/taiko/difficulty/gradual.rs impl=Iterator for=TaikoGradualDifficulty name=next ret=r subst=Self::Item=>TaikoDifficultyAttributes
@spec
        requires old(self).inv()
        ensures
            final(self).inv(),
            final(self).total_hits == old(self).total_hits,
            r.is_some() <==> old(self).remaining() > 0,
            r.is_some() ==> final(self).idx == old(self).idx + 1 && r.unwrap().max_combo as int == final(self).idx,
            r.is_none() ==> final(self).idx == old(self).idx,
@start
        proof { lemma_hits_nonneg(it_seq(self.diff_objects_iter), it_pos(self.diff_objects_iter)); lemma_hits_nonneg(it_seq(self.diff_objects_iter), 0); }
@loop 1
                invariant_except_break
                    self.attrs.max_combo as int == self.idx,
                    self.total_hits - self.idx == hits_from(it_seq(self.diff_objects_iter), it_pos(self.diff_objects_iter)),
                invariant
                    self.idx == old(self).idx, self.idx >= 2,
                    self.total_hits == old(self).total_hits, self.total_hits < u32::MAX,
                    self.first_combos == old(self).first_combos,
                    self.first_combos is Both,
                    it_seq(self.diff_objects_iter) == it_seq(old(self).diff_objects_iter),
                    n_diff(self.diff_objects) == it_seq(self.diff_objects_iter).len(), it_seq(self.diff_objects_iter).len() >= 1,
                    0 <= it_pos(self.diff_objects_iter) <= it_seq(self.diff_objects_iter).len(),
                ensures
                    self.attrs.max_combo as int == self.idx + 1,
                    self.total_hits - self.idx - 1 == hits_from(it_seq(self.diff_objects_iter), it_pos(self.diff_objects_iter)),
                decreases it_seq(self.diff_objects_iter).len() - it_pos(self.diff_objects_iter)
@before 1 `self.idx += 1;`
        proof { lemma_hits_nonneg(it_seq(self.diff_objects_iter), it_pos(self.diff_objects_iter)); lemma_hits_nonneg(it_seq(self.diff_objects_iter), 0); }
@before 1 `let curr = self.diff_objects_iter.next()?;`
                proof { lemma_hits_nonneg(it_seq(self.diff_objects_iter), it_pos(self.diff_objects_iter) + 1); }
*/
}

/*@extract struct file=src/taiko/performance/gradual.rs name=TaikoGradualPerformance */

impl TaikoGradualPerformance {
/*@extract fn file=src/taiko/performance/gradual.rs impl=TaikoGradualPerformance name=nth ret=r
@spec
        requires old(self).difficulty.inv()
        ensures
            final(self).difficulty.inv(),
            r.is_some() <==> old(self).difficulty.remaining() > 0,
            final(self).difficulty.idx == old(self).difficulty.idx
                + (if n < old(self).difficulty.remaining() { n + 1 } else { old(self).difficulty.remaining() }),
            final(self).difficulty.remaining() == old(self).difficulty.remaining() - (final(self).difficulty.idx - old(self).difficulty.idx),
*/

/*@extract fn file=src/taiko/performance/gradual.rs impl=TaikoGradualPerformance name=next ret=r
@spec
        requires old(self).difficulty.inv()
        ensures
            final(self).difficulty.inv(),
            r.is_some() <==> old(self).difficulty.remaining() > 0,
            final(self).difficulty.idx == old(self).difficulty.idx + (if old(self).difficulty.remaining() > 0 { 1int } else { 0int }),
*/

/*@extract fn file=src/taiko/performance/gradual.rs impl=TaikoGradualPerformance name=last ret=r
@spec
        requires old(self).difficulty.inv()
        ensures
            final(self).difficulty.inv(),
            r.is_some() <==> old(self).difficulty.remaining() > 0,
            final(self).difficulty.remaining() == 0,
*/

/*@extract fn file=src/taiko/performance/gradual.rs impl=TaikoGradualPerformance name=len ret=r
@spec
        requires self.difficulty.inv()
        ensures r == self.difficulty.remaining()
*/
}

} // verus!
fn main() {}
