//@ unit: tandem
//@ assume: T3: `global size_of usize == 8` (the mark bit is bit 63; true for the sandbox target x86_64)
//@ assume: T2: assume_specification of <[T]>::swap (exchanges two in-bounds elements, nothing else) and usize::leading_zeros (== 0 iff top bit set); both are std functions
//@ assume: R4: the struct field `indices: Box<[usize]>` is verified as `Vec<usize>` (same indexing semantics, length never changes in these functions)
//@ obl: id=U1.tandem.sort fn=TandemSorter::sort props=C06,C19,C05 tier=quick kind=proof twin=yes pair=U1.tandem.kani.n5
//@ fns: TandemSorter::sort
//@ bound: unbounded: all lengths, all permutations, all iterations; termination proved (decreases)
//@ clause: pre: stored indices (mark bit stripped) are a bijection on 0..n, marks uniform == should_reset, slice.len()==n. post: slice'[k] == slice[perm[k]] for all k; perm unchanged (so a second call on another slice applies the same permutation: objects and hit sounds stay paired); all marks set and should_reset; no out-of-bounds index; terminates
//@ obl: id=U1.tandem.toggle_marks fn=TandemSorter::toggle_marks props=C06,C19,C05 tier=quick kind=proof
//@ fns: TandemSorter::toggle_marks
//@ bound: unbounded
//@ clause: every stored index has exactly its mark bit flipped; length and should_reset unchanged
//@ obl: id=U1.tandem.idx_is_marked fn=TandemSorter::idx_is_marked props=C06,C19 tier=quick kind=proof
//@ fns: TandemSorter::idx_is_marked
//@ bound: all usize
//@ clause: returns whether bit 63 is set
//@ obl: id=U1.tandem.toggle_mark_idx fn=TandemSorter::toggle_mark_idx props=C06,C19 tier=quick kind=proof
//@ fns: TandemSorter::toggle_mark_idx
//@ bound: all usize
//@ clause: returns idx ^ 2^63
//@ obl: id=U1.tandem.pairing fn=lemma_pairing props=C06,C19 tier=quick kind=proof
//@ fns: (lemma over the contract of TandemSorter::sort)
//@ bound: unbounded
//@ clause: two slices permuted by the same perm stay paired: a'[k]==a[perm[k]] and b'[k]==b[perm[k]] ==> for every k the pair (a'[k], b'[k]) is an original pair (a[j], b[j])
use vstd::prelude::*;
use vstd::set_lib::*;
verus! {
global size_of usize == 8;

pub assume_specification [usize::leading_zeros] (x: usize) -> (r: u32)
    ensures (r == 0) == (x & 0x8000_0000_0000_0000usize != 0);

pub assume_specification<T> [<[T]>::swap] (s: &mut [T], a: usize, b: usize)
    requires a < old(s)@.len(), b < old(s)@.len()
    ensures final(s)@ == old(s)@.update(a as int, old(s)@[b as int]).update(b as int, old(s)@[a as int]);

/*@extract struct file=src/util/sort/tandem.rs name=TandemSorter */

pub open spec fn MARK() -> usize { 0x8000_0000_0000_0000usize }
pub open spec fn marked(x: usize) -> bool { x & MARK() != 0 }

proof fn lemma_toggle(x: usize)
    ensures
        marked(x ^ MARK()) == !marked(x),
        (x ^ MARK()) ^ MARK() == x,
        !marked(x) ==> x < MARK(),
        x < MARK() ==> !marked(x),
{
    assert(((x ^ 0x8000_0000_0000_0000usize) & 0x8000_0000_0000_0000usize != 0) == !(x & 0x8000_0000_0000_0000usize != 0)) by (bit_vector);
    assert((x ^ 0x8000_0000_0000_0000usize) ^ 0x8000_0000_0000_0000usize == x) by (bit_vector);
    assert(!(x & 0x8000_0000_0000_0000usize != 0) ==> x < 0x8000_0000_0000_0000usize) by (bit_vector);
    assert(x < 0x8000_0000_0000_0000usize ==> !(x & 0x8000_0000_0000_0000usize != 0)) by (bit_vector);
}

proof fn lemma_toggle_all()
    ensures
        forall|x: usize| marked(#[trigger] (x ^ MARK())) == !marked(x),
        forall|x: usize| #[trigger] (x ^ MARK()) ^ MARK() == x,
        forall|x: usize| !#[trigger] marked(x) ==> x < MARK(),
{
    assert forall|x: usize| marked(#[trigger] (x ^ MARK())) == !marked(x) by { lemma_toggle(x); }
    assert forall|x: usize| #[trigger] (x ^ MARK()) ^ MARK() == x by { lemma_toggle(x); }
    assert forall|x: usize| !#[trigger] marked(x) implies x < MARK() by { lemma_toggle(x); }
}

/// (x, y) is one of the original (object, sound) pairs
pub open spec fn is_pair_of<A, B>(a: Seq<A>, b: Seq<B>, x: A, y: B) -> bool {
    exists|j: int| 0 <= j < a.len() && #[trigger] a[j] == x && b[j] == y
}

/// Pairing lemma used by C06/C19: applying the same permutation to objects and sounds keeps them paired.
proof fn lemma_pairing<A, B>(a: Seq<A>, b: Seq<B>, a2: Seq<A>, b2: Seq<B>, perm: Seq<int>)
    requires
        a.len() == b.len(), a2.len() == a.len(), b2.len() == a.len(), perm.len() == a.len(),
        forall|k: int| 0 <= k < a.len() ==> 0 <= #[trigger] perm[k] < a.len(),
        forall|k: int| 0 <= k < a.len() ==> #[trigger] a2[k] == a[perm[k]],
        forall|k: int| 0 <= k < a.len() ==> #[trigger] b2[k] == b[perm[k]],
    ensures
        forall|k: int| 0 <= k < a.len() ==> is_pair_of(a, b, #[trigger] a2[k], b2[k]),
{
    assert forall|k: int| 0 <= k < a.len() implies is_pair_of(a, b, #[trigger] a2[k], b2[k]) by {
        let j = perm[k];
        assert(0 <= j < a.len() && a[j] == a2[k] && b[j] == b2[k]);
    }
}

impl TandemSorter {

    pub closed spec fn n(&self) -> int { self.indices@.len() as int }

    /// the permutation stored (mark bit stripped)
    pub closed spec fn perm(&self) -> Seq<int> {
        Seq::new(self.indices@.len(), |k: int| if marked(self.indices@[k]) { (self.indices@[k] ^ MARK()) as int } else { self.indices@[k] as int })
    }

    /// representation invariant; q is (a witness for) the inverse permutation
    pub closed spec fn wf(&self, q: Seq<int>) -> bool {
        &&& q.len() == self.n()
        &&& forall|k: int| 0 <= k < self.n() ==> 0 <= #[trigger] self.perm()[k] < self.n()
        &&& forall|k: int| 0 <= k < self.n() ==> 0 <= #[trigger] q[k] < self.n()
        &&& forall|k: int| 0 <= k < self.n() ==> q[#[trigger] self.perm()[k]] == k
        &&& forall|k: int| 0 <= k < self.n() ==> self.perm()[#[trigger] q[k]] == k
        &&& forall|k: int| 0 <= k < self.n() ==> marked(#[trigger] self.indices@[k]) == self.should_reset
    }

/*@extract fn file=src/util/sort/tandem.rs impl=TandemSorter name=idx_is_marked ret=r
@spec
        ensures r == marked(idx)
*/

/*@extract fn file=src/util/sort/tandem.rs impl=TandemSorter name=toggle_mark_idx ret=r
@spec
        ensures r == idx ^ MARK()
@start
        proof { assert(!(usize::MAX >> 1) == 0x8000_0000_0000_0000usize) by (compute); }
*/

/*@extract fn file=src/util/sort/tandem.rs impl=TandemSorter name=toggle_marks
@spec
        ensures
            final(self).indices@.len() == old(self).indices@.len(),
            forall|k: int| 0 <= k < old(self).indices@.len() ==> #[trigger] final(self).indices@[k] == old(self).indices@[k] ^ MARK(),
            final(self).should_reset == old(self).should_reset,
@loop 1
            invariant
                __k_idx <= self.indices@.len(), self.indices@.len() == old(self).indices@.len(),
                self.should_reset == old(self).should_reset,
                forall|k: int| 0 <= k < __k_idx ==> #[trigger] self.indices@[k] == old(self).indices@[k] ^ MARK(),
                forall|k: int| __k_idx <= k < self.indices@.len() ==> #[trigger] self.indices@[k] == old(self).indices@[k],
            decreases self.indices@.len() - __k_idx
*/

/*@extract fn file=src/util/sort/tandem.rs impl=TandemSorter name=sort
@spec
        requires
            exists|q: Seq<int>| old(self).wf(q),
            old(slice)@.len() == old(self).n(),
        ensures
            final(self).should_reset,
            final(self).perm() =~= old(self).perm(),
            forall|q: Seq<int>| old(self).wf(q) ==> final(self).wf(q),
            final(slice)@.len() == old(slice)@.len(),
            forall|k: int| 0 <= k < old(self).n() ==> #[trigger] final(slice)@[k] == old(slice)@[old(self).perm()[k]],
@start
        let ghost q = choose|q: Seq<int>| old(self).wf(q);
        let ghost p = self.perm();
        let ghost n = self.n();
        let ghost old_slice = slice@;
@before 1 `self.toggle_marks();`
            proof { lemma_toggle_all(); }
@after 1 `self.should_reset = false;`
            proof {
                lemma_toggle_all();
                assert forall|k: int| 0 <= k < n implies !marked(#[trigger] self.indices@[k]) && self.indices@[k] as int == p[k] by {
                    lemma_toggle(old(self).indices@[k]);
                }
            }
@before 1 `let mut i = 0;`
        proof {
            assert forall|k: int| 0 <= k < n implies !marked(#[trigger] self.indices@[k]) && self.indices@[k] as int == p[k] by { }
        }
        let ghost mut um: Set<int> = set_int_range(0, n);
        proof { lemma_int_range(0, n); }
@loop 1
            invariant
                0 <= i <= n,
                n == self.indices@.len(), n == slice@.len(), n == p.len(), n == q.len(), n == old_slice.len(),
                forall|k: int| 0 <= k < n ==> 0 <= #[trigger] p[k] < n,
                forall|k: int| 0 <= k < n ==> 0 <= #[trigger] q[k] < n,
                forall|k: int| 0 <= k < n ==> q[#[trigger] p[k]] == k,
                forall|k: int| 0 <= k < n ==> p[#[trigger] q[k]] == k,
                forall|k: int| um.contains(k) <==> (0 <= k < n && !marked(self.indices@[k])),
                forall|k: int| 0 <= k < n && !marked(#[trigger] self.indices@[k]) ==> self.indices@[k] as int == p[k] && slice@[k] == old_slice[k],
                forall|k: int| 0 <= k < n && marked(#[trigger] self.indices@[k]) ==> (self.indices@[k] ^ MARK()) as int == p[k] && slice@[k] == old_slice[p[k]] && marked(self.indices@[q[k]]),
                forall|k: int| 0 <= k < i ==> marked(#[trigger] self.indices@[k]),
            decreases n - i
@loop 2
                invariant
                    n == self.indices@.len(), n == slice@.len(), n == p.len(), n == q.len(), n == old_slice.len(),
                    0 <= i < n, 0 <= j < n,
                    forall|k: int| 0 <= k < n ==> 0 <= #[trigger] p[k] < n,
                    forall|k: int| 0 <= k < n ==> 0 <= #[trigger] q[k] < n,
                    forall|k: int| 0 <= k < n ==> q[#[trigger] p[k]] == k,
                    forall|k: int| 0 <= k < n ==> p[#[trigger] q[k]] == k,
                    forall|k: int| um.contains(k) <==> (0 <= k < n && !marked(self.indices@[k])),
                    !marked(self.indices@[j as int]),
                    j_idx == self.indices@[j as int],
                    forall|k: int| 0 <= k < n && !marked(#[trigger] self.indices@[k]) ==> self.indices@[k] as int == p[k] && (k != j ==> slice@[k] == old_slice[k]),
                    slice@[j as int] == old_slice[i as int],
                    forall|k: int| 0 <= k < n && marked(#[trigger] self.indices@[k]) ==> (self.indices@[k] ^ MARK()) as int == p[k] && slice@[k] == old_slice[p[k]] && (k != i ==> marked(self.indices@[q[k]])),
                    j != i ==> marked(self.indices@[i as int]) && marked(self.indices@[q[j as int]]),
                    forall|k: int| 0 <= k < i ==> marked(#[trigger] self.indices@[k]),
                decreases um.len()
@before 1 `self.indices[j] = ...`
                proof {
                    lemma_toggle(j_idx);
                    assert(j_idx as int == p[j as int]);
                    assert(q[p[j as int]] == j);
                }
@after 1 `slice.swap(...`
                proof { um = um.remove(j as int); }
@before 2 `self.indices[j] = ...`
            proof { lemma_toggle(j_idx); }
@after 2 `self.indices[j] = ...`
            proof { um = um.remove(j as int); }
@end
        proof {
            lemma_toggle_all();
            assert forall|k: int| 0 <= k < n implies #[trigger] slice@[k] == old_slice[p[k]] by {
                assert(marked(self.indices@[k]));
            }
        }
*/
}

} // verus!
fn main() {}
