//@ unit: gradual_catch_v
//@ assume: opaque external types (Difficulty, CatchDifficultyAttributes, GradualObjectCount, CatchDifficultyObject, Movement) and external_body contracts for the callees of `next`: Movement::process / cloned_difficulty_value and DifficultyValues::eval do not touch the calculator's bookkeeping (they only get the skill / a fresh attribute copy); CatchDifficultyAttributes::add_object_count adds exactly the given delta (the real function is exercised by Kani in U12.catch.protocol.*); clone() preserves the counted view
//@ assume: R4: `diff_objects: Box<[CatchDifficultyObject]>` is verified as Vec<CatchDifficultyObject>; the signature's `Self::Item` is written out as CatchDifficultyAttributes
//@ assume: A-INV: the invariant `count.len() == N, diff_objects.len() == max(N,1)-1, idx <= diff_objects.len()+1, N == 0 ==> idx == 0` is established by `new` (not proved)
//@ obl: id=U12.catch.next.verus fn=CatchGradualDifficulty::next props=C15,C02,C05 tier=quick kind=proof twin=yes pair=U12.catch.protocol.n2
//@ fns: CatchGradualDifficulty::next (Iterator::next)
//@ bound: unbounded: every number of palpable objects N, every position idx
//@ clause: for ALL N: pre: invariant. post: Some iff idx < N (values remain); then idx' = idx+1 and the attributes' counted view grows by exactly count[idx] (the i-th value counts exactly the first i objects); else the calculator is unchanged; invariant preserved; every index (count[idx], diff_objects[idx-1]) is in bounds; no arithmetic overflow
//@ obl: id=U12.catch.len.verus fn=CatchGradualDifficulty::len props=C15,C05 tier=quick kind=proof twin=yes pair=U12.catch.protocol.n1
//@ fns: CatchGradualDifficulty::len (ExactSizeIterator::len)
//@ bound: unbounded
//@ clause: for ALL N: under the invariant len() == N - idx (number of values still to come), without underflow
use vstd::prelude::*;
verus! {
global size_of usize == 8;

// ---- opaque external types -----------------------------------------------------------------------------------------
#[verifier::external_body] pub struct Difficulty { _p: () }
#[verifier::external_body] pub struct CatchDifficultyAttributes { _p: () }
#[verifier::external_body] #[derive(Clone, Copy)] pub struct GradualObjectCount { _p: () }
#[verifier::external_body] pub struct CatchDifficultyObject { _p: () }
#[verifier::external_body] pub struct Movement { _p: () }
pub struct DifficultyValues { }

/// abstract view: (fruits, droplets, tiny droplets) counted so far / contributed by one palpable object
pub uninterp spec fn counted(a: CatchDifficultyAttributes) -> (nat, nat, nat);
pub uninterp spec fn delta(c: GradualObjectCount) -> (nat, nat, nat);
pub open spec fn plus(a: (nat, nat, nat), b: (nat, nat, nat)) -> (nat, nat, nat) { (a.0 + b.0, a.1 + b.1, a.2 + b.2) }

impl CatchDifficultyAttributes {
    #[verifier::external_body]
    fn add_object_count(&mut self, count: GradualObjectCount)
        ensures counted(*final(self)) == plus(counted(*old(self)), delta(count))
    { unimplemented!() }
}
impl Clone for CatchDifficultyAttributes {
    #[verifier::external_body]
    fn clone(&self) -> (r: Self)
        ensures counted(r) == counted(*self)
    { unimplemented!() }
}
impl Movement {
    #[verifier::external_body]
    fn process(&mut self, curr: &CatchDifficultyObject, objects: &Vec<CatchDifficultyObject>) { unimplemented!() }
    #[verifier::external_body]
    fn cloned_difficulty_value(&self) -> f64 { unimplemented!() }
}
impl DifficultyValues {
    #[verifier::external_body]
    fn eval(attrs: &mut CatchDifficultyAttributes, movement_difficulty_value: f64)
        ensures counted(*final(attrs)) == counted(*old(attrs))
    { unimplemented!() }
}

/*@extract struct file=src/catch/difficulty/gradual.rs name=CatchGradualDifficulty */

impl CatchGradualDifficulty {
    /// representation invariant (N = number of palpable objects)
    pub closed spec fn inv(&self) -> bool {
        &&& self.diff_objects@.len() + 1 == (if self.count@.len() == 0 { 1 } else { self.count@.len() as int })
        &&& self.idx <= self.diff_objects@.len() + 1
        &&& (self.count@.len() == 0 ==> self.idx == 0)
        // allocation limit: a Vec of non-zero-sized elements holds at most isize::MAX of them
        &&& self.count@.len() < usize::MAX && self.diff_objects@.len() < usize::MAX
    }
    pub closed spec fn remaining(&self) -> int { self.count@.len() - self.idx }

/*@extract fn file=src/catch/difficulty/gradual.rs impl=Iterator for=CatchGradualDifficulty name=next ret=r subst=Self::Item=>CatchDifficultyAttributes
@spec
        requires old(self).inv()
        ensures
            final(self).inv(),
            r.is_some() <==> old(self).remaining() > 0,
            final(self).count@ == old(self).count@,
            final(self).diff_objects@.len() == old(self).diff_objects@.len(),
            r.is_some() ==> final(self).idx == old(self).idx + 1
                && counted(final(self).attrs) == plus(counted(old(self).attrs), delta(old(self).count@[old(self).idx as int]))
                && counted(r.unwrap()) == counted(final(self).attrs),
            r.is_none() ==> final(self).idx == old(self).idx && counted(final(self).attrs) == counted(old(self).attrs),
*/

/*@extract fn file=src/catch/difficulty/gradual.rs impl=ExactSizeIterator for=CatchGradualDifficulty name=len ret=r
@spec
        requires self.inv()
        ensures r == self.remaining()
*/
}

} // verus!
fn main() {}
