//@ unit: gradual_catch_v
//@ assume: opaque external types (Difficulty, CatchDifficultyAttributes, GradualObjectCount, CatchDifficultyObject, Movement) and external_body contracts for the callees of `next`: Movement::process / cloned_difficulty_value and DifficultyValues::eval do not touch the calculator's bookkeeping (they only get the skill / a fresh attribute copy); CatchDifficultyAttributes::add_object_count adds exactly the given delta (the real function is exercised by Kani in U12.catch.protocol.*); clone() preserves the counted view
//@ assume: R4: `diff_objects: Box<[CatchDifficultyObject]>` is verified as Vec<CatchDifficultyObject>; the signature's `Self::Item` is written out as CatchDifficultyAttributes
//@ assume: A-INV: the invariant `count.len() == N, diff_objects.len() == max(N,1)-1, idx <= diff_objects.len()+1, N == 0 ==> idx == 0` is established by `new` (not proved)
//@ obl: id=U12.catch.next.verus fn=CatchGradualDifficulty::next props=C15,C02,C05 tier=quick kind=proof twin=yes pair=U12.catch.protocol.n2
//@ fns: CatchGradualDifficulty::next (Iterator::next)
//@ bound: unbounded: every number of palpable objects N, every position idx
//@ clause: for ALL N: pre: invariant. post: Some iff idx < N (values remain); then idx' = idx+1 and the attributes' counted view grows by exactly count[idx] (the i-th value counts exactly the first i objects); else the calculator is unchanged; invariant preserved; every index (count[idx], diff_objects[idx-1]) is in bounds; no arithmetic overflow
//@ obl: id=U12.catch.nth.verus fn=CatchGradualDifficulty::nth props=C15,C02,C05 tier=quick kind=proof twin=yes pair=U12.catch.protocol.n2
//@ fns: CatchGradualDifficulty::nth (Iterator::nth)
//@ bound: unbounded: every number of palpable objects, every position, every n (incl. usize::MAX)
//@ clause: for ALL N and n: pre: invariant. post: Some iff n < remaining; exactly min(n+1, remaining) values are consumed; the attributes' counted view grows by exactly the deltas of the consumed objects (so the value returned by nth(n) counts the same objects as n+1 calls of next()); invariant preserved; all indices in bounds; no overflow (rewrites R10, R11 and a local verified cmp::min are used)
//@ assume: R10: slice.iter().skip(S).take(T) visits the elements S, S+1, ... while in range, at most T of them; R11: Option::filter with a constant predicate; `cmp::min` on usize is a local verified definition
//@ obl: id=U12.catch.perf.verus fn=CatchGradualPerformance::nth props=C15,C03,C05 tier=quick kind=proof twin=yes pair=U12.catch.perf.n2
//@ fns: CatchGradualPerformance::nth, CatchGradualPerformance::next, CatchGradualPerformance::last, CatchGradualPerformance::len
//@ bound: unbounded; modular: checked against the contract of CatchGradualDifficulty::nth proved above, not its body
//@ clause: for ALL N and n: the gradual performance calculator's nth(state, n) consumes exactly min(n+1, remaining) objects and returns None exactly when nothing remains; next == nth(0); last == nth(usize::MAX) consumes everything; len() == remaining
//@ assume: the performance builder chain (performance/state/difficulty/passed_objects/calculate) is declared as external_body functions: calculate() returns Ok (own-mode attributes need no conversion); what the builder receives is obligation U12.catch.perf.* (Kani)
//@ obl: id=U12.catch.len.verus fn=CatchGradualDifficulty::len props=C15,C05 tier=quick kind=proof twin=yes pair=U12.catch.protocol.n1
//@ fns: CatchGradualDifficulty::len (ExactSizeIterator::len)
//@ bound: unbounded
//@ clause: for ALL N: under the invariant len() == N - idx (number of values still to come), without underflow
use vstd::prelude::*;
verus! {
global size_of usize == 8;

// ---- opaque external types -----------------------------------------------------------------------------------------
#[verifier::external_body] pub struct Difficulty { _p: () }
#[verifier::external_body] pub struct CatchDifficultyAttributes { _p: () }
#[verifier::external_body] #[derive(Clone, Copy)] pub struct GradualObjectCount { _p: () }
#[verifier::external_body] pub struct CatchDifficultyObject { _p: () }
#[verifier::external_body] pub struct Movement { _p: () }
pub struct DifficultyValues { }

/// abstract view: (fruits, droplets, tiny droplets) counted so far / contributed by one palpable object
pub uninterp spec fn counted(a: CatchDifficultyAttributes) -> (nat, nat, nat);
pub uninterp spec fn delta(c: GradualObjectCount) -> (nat, nat, nat);
pub open spec fn plus(a: (nat, nat, nat), b: (nat, nat, nat)) -> (nat, nat, nat) { (a.0 + b.0, a.1 + b.1, a.2 + b.2) }

/// sum of the count deltas of the palpable objects lo..hi
pub open spec fn sum_delta(c: Seq<GradualObjectCount>, lo: int, hi: int) -> (nat, nat, nat)
    decreases hi - lo
{
    if hi <= lo { (0, 0, 0) } else { plus(sum_delta(c, lo, hi - 1), delta(c[hi - 1])) }
}
proof fn lemma_sum_empty(c: Seq<GradualObjectCount>, lo: int)
    ensures sum_delta(c, lo, lo) == (0nat, 0nat, 0nat)
{}
proof fn lemma_sum_step(c: Seq<GradualObjectCount>, lo: int, hi: int)
    requires lo < hi
    ensures sum_delta(c, lo, hi) == plus(sum_delta(c, lo, hi - 1), delta(c[hi - 1]))
{}

/// std::cmp::min on usize (verified local definition; the extracted code calls `cmp::min`)
pub mod cmp {
    use vstd::prelude::*;
    pub fn min(a: usize, b: usize) -> (r: usize)
        ensures r == if a <= b { a } else { b }
    { if a <= b { a } else { b } }
}

impl CatchDifficultyAttributes {
    #[verifier::external_body]
    fn add_object_count(&mut self, count: GradualObjectCount)
        ensures counted(*final(self)) == plus(counted(*old(self)), delta(count))
    { unimplemented!() }
}
impl Clone for CatchDifficultyAttributes {
    #[verifier::external_body]
    fn clone(&self) -> (r: Self)
        ensures counted(r) == counted(*self)
    { unimplemented!() }
}
impl Movement {
    #[verifier::external_body]
    fn process(&mut self, curr: &CatchDifficultyObject, objects: &Vec<CatchDifficultyObject>) { unimplemented!() }
    #[verifier::external_body]
    fn cloned_difficulty_value(&self) -> f64 { unimplemented!() }
}
impl DifficultyValues {
    #[verifier::external_body]
    fn eval(attrs: &mut CatchDifficultyAttributes, movement_difficulty_value: f64)
        ensures counted(*final(attrs)) == counted(*old(attrs))
    { unimplemented!() }
}

#[verifier::external_body] pub struct CatchScoreState { _p: () }
#[verifier::external_body] pub struct CatchPerformanceAttributes { _p: () }
#[verifier::external_body] pub struct CatchPerformance { _p: () }
#[verifier::external_body] #[derive(Debug)] pub struct ConvertError { _p: () }

/// the passed_objects value the builder was last given
pub uninterp spec fn passed(p: CatchPerformance) -> u32;

impl Clone for Difficulty {
    #[verifier::external_body]
    fn clone(&self) -> Self { unimplemented!() }
}
impl CatchDifficultyAttributes {
    #[verifier::external_body]
    fn performance(self) -> CatchPerformance { unimplemented!() }
}
impl CatchPerformance {
    #[verifier::external_body]
    fn state(self, state: CatchScoreState) -> (r: Self) { unimplemented!() }
    #[verifier::external_body]
    fn difficulty(self, difficulty: Difficulty) -> (r: Self) { unimplemented!() }
    #[verifier::external_body]
    fn passed_objects(self, passed_objects: u32) -> (r: Self)
        ensures passed(r) == passed_objects
    { unimplemented!() }
    #[verifier::external_body]
    fn calculate(self) -> (r: Result<CatchPerformanceAttributes, ConvertError>)
        ensures r.is_ok()
    { unimplemented!() }
}

/*@extract struct file=src/catch/difficulty/gradual.rs name=CatchGradualDifficulty */

/*@extract struct file=src/catch/performance/gradual.rs name=CatchGradualPerformance */

impl CatchGradualPerformance {
/*@extract fn file=src/catch/performance/gradual.rs impl=CatchGradualPerformance name=nth ret=r
@spec
        requires old(self).difficulty.inv()
        ensures
            final(self).difficulty.inv(),
            final(self).difficulty.count@ == old(self).difficulty.count@,
            r.is_some() <==> old(self).difficulty.remaining() > 0,
            final(self).difficulty.idx == old(self).difficulty.idx
                + (if n < old(self).difficulty.remaining() { n + 1 } else { old(self).difficulty.remaining() }),
*/

/*@extract fn file=src/catch/performance/gradual.rs impl=CatchGradualPerformance name=next ret=r
@spec
        requires old(self).difficulty.inv()
        ensures
            final(self).difficulty.inv(),
            r.is_some() <==> old(self).difficulty.remaining() > 0,
            final(self).difficulty.idx == old(self).difficulty.idx + (if old(self).difficulty.remaining() > 0 { 1int } else { 0int }),
*/

/*@extract fn file=src/catch/performance/gradual.rs impl=CatchGradualPerformance name=last ret=r
@spec
        requires old(self).difficulty.inv()
        ensures
            final(self).difficulty.inv(),
            r.is_some() <==> old(self).difficulty.remaining() > 0,
            final(self).difficulty.remaining() == 0,
*/

/*@extract fn file=src/catch/performance/gradual.rs impl=CatchGradualPerformance name=len ret=r
@spec
        requires self.difficulty.inv()
        ensures r == self.difficulty.remaining()
*/
}


impl CatchGradualDifficulty {
    /// representation invariant (N = number of palpable objects)
    pub closed spec fn inv(&self) -> bool {
        &&& self.diff_objects@.len() + 1 == (if self.count@.len() == 0 { 1 } else { self.count@.len() as int })
        &&& self.idx <= self.diff_objects@.len() + 1
        &&& (self.count@.len() == 0 ==> self.idx == 0)
        // allocation limit: a Vec of non-zero-sized elements holds at most isize::MAX of them
        &&& self.count@.len() < usize::MAX && self.diff_objects@.len() < usize::MAX
    }
    pub closed spec fn remaining(&self) -> int { self.count@.len() - self.idx }

/*@extract fn file=src/catch/difficulty/gradual.rs impl=Iterator for=CatchGradualDifficulty name=next ret=r subst=Self::Item=>CatchDifficultyAttributes
@spec
        requires old(self).inv()
        ensures
            final(self).inv(),
            r.is_some() <==> old(self).remaining() > 0,
            final(self).count@ == old(self).count@,
            final(self).diff_objects@.len() == old(self).diff_objects@.len(),
            r.is_some() ==> final(self).idx == old(self).idx + 1
                && counted(final(self).attrs) == plus(counted(old(self).attrs), delta(old(self).count@[old(self).idx as int]))
                && counted(r.unwrap()) == counted(final(self).attrs),
            r.is_none() ==> final(self).idx == old(self).idx && counted(final(self).attrs) == counted(old(self).attrs),
*/

/*@extract fn file=src/catch/difficulty/gradual.rs impl=Iterator for=CatchGradualDifficulty name=nth ret=r subst=Self::Item=>CatchDifficultyAttributes
@spec
        requires old(self).inv()
        ensures
            final(self).inv(),
            final(self).count@ == old(self).count@,
            final(self).diff_objects@.len() == old(self).diff_objects@.len(),
            r.is_some() <==> n < old(self).remaining(),
            final(self).idx == old(self).idx + (if n < old(self).remaining() { n + 1 } else { old(self).remaining() }),
            counted(final(self).attrs) == plus(counted(old(self).attrs), sum_delta(old(self).count@, old(self).idx as int, final(self).idx as int)),
            r.is_some() ==> counted(r.unwrap()) == counted(final(self).attrs),
@loop 1
            invariant
                self.inv(),
                self.count@ == old(self).count@,
                self.diff_objects@.len() == old(self).diff_objects@.len(),
                old(self).idx <= self.idx,
                self.idx >= 1 || __skip_iter_take == 0,
                __skip_iter_k + 1 == self.idx || __skip_iter_take == 0,
                self.idx + (__skip_iter_take - __skip_iter_c) == old(self).idx + take0,
                __skip_iter_c <= __skip_iter_take,
                take0 == 0 || old(self).idx + take0 <= old(self).count@.len() - 1,
                take0 as int == (if n < old(self).remaining() - 1 { n as int } else if old(self).remaining() == 0 { 0 } else { old(self).remaining() - 1 }),
                counted(self.attrs) == plus(counted(old(self).attrs), sum_delta(old(self).count@, old(self).idx as int, self.idx as int)),
            decreases __skip_iter_take - __skip_iter_c
@before 1 `if self.idx == 0 && take > 0 {`
        let ghost take0 = take;
        proof { lemma_sum_empty(old(self).count@, old(self).idx as int); }
@after 2 `self.idx += 1;`
            proof { lemma_sum_step(old(self).count@, old(self).idx as int, self.idx as int); }
@after 1 `self.idx += 1;`
            proof { lemma_sum_step(old(self).count@, old(self).idx as int, self.idx as int); }
*/

/*@extract fn file=src/catch/difficulty/gradual.rs impl=ExactSizeIterator for=CatchGradualDifficulty name=len ret=r
@spec
        requires self.inv()
        ensures r == self.remaining()
*/
}

} // verus!
fn main() {}
