//@ unit: gradual_mania_v
//@ assume: opaque external types (Difficulty, Strain, ManiaDifficultyObject) and external_body contracts for the callees of `next`: Strain::process / cloned_difficulty_value do not touch the calculator's bookkeeping; increment_combo adds one hold note exactly for non-circles (its combo arithmetic is float code, exercised by Kani in U12.mania.protocol.*)
//@ assume: TYPE ABSTRACTION (disclosed rewrite of types, not of code): Verus refuses `f64 * f64` without a precondition it cannot discharge, so the star value is given the opaque type `Stars` (with an external `Mul`), i.e. `cloned_difficulty_value() * DIFFICULTY_MULTIPLIER` is type-checked against opaque operands; the function text is unchanged. Data shapes declared by hand: NoteState {curr_combo, n_hold_notes}, ManiaDifficultyAttributes {stars, max_combo, n_objects, n_hold_notes, is_convert}
//@ assume: A-INV as for U12.mania.len.verus
//@ obl: id=U12.mania.next.verus fn=ManiaGradualDifficulty::next props=C15,C02,C05 tier=quick kind=proof twin=yes pair=U12.mania.protocol.n2
//@ fns: ManiaGradualDifficulty::next (Iterator::next)
//@ bound: unbounded: every object count (also calculators created with a passed_objects limit), every position
//@ clause: for ALL N: pre: invariant. post: Some iff values remain; then idx' = idx+1, the value reports n_objects == idx', the hold-note counter grew by exactly one iff the consumed object (other than the first, counted by `new`) is not a circle; else unchanged; invariant preserved; objects_is_circle[idx] and diff_objects[idx-1] in bounds; no overflow of idx
use vstd::prelude::*;
verus! {
global size_of usize == 8;

#[verifier::external_body] pub struct Difficulty { _p: () }
#[verifier::external_body] pub struct Strain { _p: () }
#[verifier::external_body] pub struct ManiaDifficultyObject { _p: () }
#[verifier::external_body] pub struct Stars { _p: () }
pub struct NoteState { pub curr_combo: u32, pub n_hold_notes: u32 }
pub struct ManiaDifficultyAttributes { pub stars: Stars, pub max_combo: u32, pub n_objects: u32, pub n_hold_notes: u32, pub is_convert: bool }

#[verifier::external_body]
pub const DIFFICULTY_MULTIPLIER: Stars = Stars { _p: () };

impl core::ops::Mul<Stars> for Stars {
    type Output = Stars;
    #[verifier::external_body]
    fn mul(self, rhs: Stars) -> Stars { unimplemented!() }
}

impl vstd::std_specs::ops::MulSpecImpl<Stars> for Stars {
    open spec fn obeys_mul_spec() -> bool { false }
    open spec fn mul_req(self, rhs: Stars) -> bool { true }
    open spec fn mul_spec(self, rhs: Stars) -> Stars { self }
}

impl Difficulty {
    #[verifier::external_body]
    fn get_clock_rate(&self) -> f64 { unimplemented!() }
}
impl Strain {
    #[verifier::external_body]
    fn process(&mut self, curr: &ManiaDifficultyObject, objects: &Vec<ManiaDifficultyObject>) { unimplemented!() }
    #[verifier::external_body]
    fn cloned_difficulty_value(&self) -> Stars { unimplemented!() }
}

#[verifier::external_body]
fn increment_combo(is_circle: bool, diff_obj: &ManiaDifficultyObject, state: &mut NoteState, clock_rate: f64)
    requires old(state).n_hold_notes < u32::MAX
    ensures final(state).n_hold_notes == old(state).n_hold_notes + (if is_circle { 0u32 } else { 1u32 })
{ unimplemented!() }

/*@extract struct file=src/mania/difficulty/gradual.rs name=ManiaGradualDifficulty */

impl ManiaGradualDifficulty {
    pub closed spec fn inv(&self) -> bool {
        &&& (self.objects_is_circle@.len() > 0 ==> self.objects_is_circle@.len() >= self.diff_objects@.len() + 1)
        &&& self.idx <= self.diff_objects@.len() + 1
        &&& (self.objects_is_circle@.len() == 0 ==> self.idx == 0 && self.diff_objects@.len() == 0)
        &&& self.diff_objects@.len() < usize::MAX
        // at most one hold note per consumed object
        &&& self.note_state.n_hold_notes as int <= self.idx
        &&& self.diff_objects@.len() < u32::MAX
    }
    pub closed spec fn remaining(&self) -> int {
        if self.objects_is_circle@.len() == 0 { 0 } else { self.diff_objects@.len() + 1 - self.idx }
    }

/*@extract fn file=src/mania/difficulty/gradual.rs impl=Iterator for=ManiaGradualDifficulty name=next ret=r subst=Self::Item=>ManiaDifficultyAttributes
@spec
        requires old(self).inv()
        ensures
            final(self).inv(),
            final(self).objects_is_circle@ == old(self).objects_is_circle@,
            final(self).diff_objects@.len() == old(self).diff_objects@.len(),
            r.is_some() <==> old(self).remaining() > 0,
            r.is_some() ==> final(self).idx == old(self).idx + 1
                && r.unwrap().n_objects == final(self).idx as u32
                && r.unwrap().n_hold_notes == final(self).note_state.n_hold_notes
                && r.unwrap().max_combo == final(self).note_state.curr_combo
                && r.unwrap().is_convert == old(self).is_convert
                && final(self).note_state.n_hold_notes == old(self).note_state.n_hold_notes
                    + (if old(self).idx > 0 && !old(self).objects_is_circle@[old(self).idx as int] { 1u32 } else { 0u32 }),
            r.is_none() ==> final(self).idx == old(self).idx && final(self).note_state == old(self).note_state,
*/
}

} // verus!
fn main() {}
