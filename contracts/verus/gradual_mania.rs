//@ unit: gradual_mania_v
//@ assume: opaque external types (Difficulty, Strain, ManiaDifficultyObject) and external_body contracts for the callees of `next`: Strain::process / cloned_difficulty_value do not touch the calculator's bookkeeping; increment_combo adds one hold note exactly for non-circles (its combo arithmetic is float code, exercised by Kani in U12.mania.protocol.*)
//@ assume: TYPE ABSTRACTION (disclosed rewrite of types, not of code): Verus refuses `f64 * f64` without a precondition it cannot discharge, so the star value is given the opaque type `Stars` (with an external `Mul`), i.e. `cloned_difficulty_value() * DIFFICULTY_MULTIPLIER` is type-checked against opaque operands; the function text is unchanged. Data shapes declared by hand: NoteState {curr_combo, n_hold_notes}, ManiaDifficultyAttributes {stars, max_combo, n_objects, n_hold_notes, is_convert}
//@ assume: A-INV as for U12.mania.len.verus
//@ obl: id=U12.mania.nth.verus fn=ManiaGradualDifficulty::nth props=C15,C02,C05 tier=quick kind=proof twin=yes pair=U12.mania.protocol.limited
//@ fns: ManiaGradualDifficulty::nth (Iterator::nth), ManiaGradualDifficulty::len
//@ bound: unbounded: every object count (also limited calculators), every position, every n (incl. usize::MAX)
//@ clause: for ALL N and n: pre: invariant. post: Some iff n < remaining; exactly min(n+1, remaining) values are consumed; the returned value reports n_objects == idx'; the hold-note counter grows by the number of non-circles among the consumed objects other than the first; invariant preserved; indices in bounds; no overflow
//@ assume: R10 (zip form): A.iter().zip(B.iter().skip(1)).skip(S).take(T) pairs A[k] with B[k+1] for k = S, S+1, ... while both are in range, at most T pairs; R11; local verified cmp::min
//@ obl: id=U12.mania.perf.verus fn=ManiaGradualPerformance::nth props=C15,C03,C05 tier=quick kind=proof twin=yes pair=U12.mania.perf.n2
//@ fns: ManiaGradualPerformance::nth, ManiaGradualPerformance::next, ManiaGradualPerformance::last, ManiaGradualPerformance::len
//@ bound: unbounded; modular: checked against the contract of ManiaGradualDifficulty::nth proved in the same unit, not its body
//@ clause: for ALL N and n: the gradual performance calculator's nth(state, n) consumes exactly min(n+1, remaining) objects and returns None exactly when nothing remains; next == nth(0); last == nth(usize::MAX) consumes everything; len() == remaining
//@ assume: the performance builder chain (performance/lazer/state/difficulty/passed_objects/calculate) is declared as external_body functions: calculate() returns Ok (own-mode attributes need no conversion); what the builder receives is obligation U12.mania.perf.* (Kani)
//@ obl: id=U12.mania.next.verus fn=ManiaGradualDifficulty::next props=C15,C02,C05 tier=quick kind=proof twin=yes pair=U12.mania.protocol.n2
//@ fns: ManiaGradualDifficulty::next (Iterator::next)
//@ bound: unbounded: every object count (also calculators created with a passed_objects limit), every position
//@ clause: for ALL N: pre: invariant. post: Some iff values remain; then idx' = idx+1, the value reports n_objects == idx', the hold-note counter grew by exactly one iff the consumed object (other than the first, counted by `new`) is not a circle; else unchanged; invariant preserved; objects_is_circle[idx] and diff_objects[idx-1] in bounds; no overflow of idx
use vstd::prelude::*;
verus! {
global size_of usize == 8;

/// std::cmp::min on usize (verified local definition; the extracted code calls `cmp::min`)
pub mod cmp {
    use vstd::prelude::*;
    pub fn min(a: usize, b: usize) -> (r: usize)
        ensures r == if a <= b { a } else { b }
    { if a <= b { a } else { b } }
}

#[verifier::external_body] pub struct Difficulty { _p: () }
#[verifier::external_body] pub struct Strain { _p: () }
#[verifier::external_body] pub struct ManiaDifficultyObject { _p: () }
#[verifier::external_body] pub struct Stars { _p: () }
pub struct NoteState { pub curr_combo: u32, pub n_hold_notes: u32 }
pub struct ManiaDifficultyAttributes { pub stars: Stars, pub max_combo: u32, pub n_objects: u32, pub n_hold_notes: u32, pub is_convert: bool }

#[verifier::external_body]
pub const DIFFICULTY_MULTIPLIER: Stars = Stars { _p: () };

impl core::ops::Mul<Stars> for Stars {
    type Output = Stars;
    #[verifier::external_body]
    fn mul(self, rhs: Stars) -> Stars { unimplemented!() }
}

impl vstd::std_specs::ops::MulSpecImpl<Stars> for Stars {
    open spec fn obeys_mul_spec() -> bool { false }
    open spec fn mul_req(self, rhs: Stars) -> bool { true }
    open spec fn mul_spec(self, rhs: Stars) -> Stars { self }
}

impl Difficulty {
    #[verifier::external_body]
    fn get_clock_rate(&self) -> f64 { unimplemented!() }
}
impl Strain {
    #[verifier::external_body]
    fn process(&mut self, curr: &ManiaDifficultyObject, objects: &Vec<ManiaDifficultyObject>) { unimplemented!() }
    #[verifier::external_body]
    fn cloned_difficulty_value(&self) -> Stars { unimplemented!() }
}

#[verifier::external_body]
fn increment_combo(is_circle: bool, diff_obj: &ManiaDifficultyObject, state: &mut NoteState, clock_rate: f64)
    requires old(state).n_hold_notes < u32::MAX
    ensures final(state).n_hold_notes == old(state).n_hold_notes + (if is_circle { 0u32 } else { 1u32 })
{ unimplemented!() }

#[verifier::external_body] pub struct ManiaScoreState { _p: () }
#[verifier::external_body] pub struct ManiaPerformanceAttributes { _p: () }
#[verifier::external_body] pub struct ManiaPerformance { _p: () }
#[verifier::external_body] #[derive(Debug)] pub struct ConvertError { _p: () }

impl Clone for Difficulty {
    #[verifier::external_body]
    fn clone(&self) -> Self { unimplemented!() }
}
impl ManiaDifficultyAttributes {
    #[verifier::external_body]
    fn performance(self) -> ManiaPerformance { unimplemented!() }
}
impl ManiaPerformance {
    #[verifier::external_body]
    fn lazer(self, lazer: bool) -> (r: Self) { unimplemented!() }
    #[verifier::external_body]
    fn state(self, state: ManiaScoreState) -> (r: Self) { unimplemented!() }
    #[verifier::external_body]
    fn difficulty(self, difficulty: Difficulty) -> (r: Self) { unimplemented!() }
    #[verifier::external_body]
    fn passed_objects(self, passed_objects: u32) -> (r: Self) { unimplemented!() }
    #[verifier::external_body]
    fn calculate(self) -> (r: Result<ManiaPerformanceAttributes, ConvertError>)
        ensures r.is_ok()
    { unimplemented!() }
}

/*@extract struct file=src/mania/difficulty/gradual.rs name=ManiaGradualDifficulty */

impl ManiaGradualDifficulty {
    pub closed spec fn inv(&self) -> bool {
        &&& (self.objects_is_circle@.len() > 0 ==> self.objects_is_circle@.len() >= self.diff_objects@.len() + 1)
        &&& self.idx <= self.diff_objects@.len() + 1
        &&& (self.objects_is_circle@.len() == 0 ==> self.idx == 0 && self.diff_objects@.len() == 0)
        &&& self.diff_objects@.len() < usize::MAX
        // at most one hold note per consumed object
        &&& self.note_state.n_hold_notes as int <= self.idx
        &&& self.diff_objects@.len() < u32::MAX
    }
    pub closed spec fn remaining(&self) -> int {
        if self.objects_is_circle@.len() == 0 { 0 } else { self.diff_objects@.len() + 1 - self.idx }
    }

    /// number of non-circles among objects lo..hi
    pub open spec fn holds(c: Seq<bool>, lo: int, hi: int) -> int
        decreases hi - lo
    {
        if hi <= lo { 0 } else { Self::holds(c, lo, hi - 1) + (if c[hi - 1] { 0int } else { 1int }) }
    }

/*@extract fn file=src/mania/difficulty/gradual.rs impl=ExactSizeIterator for=ManiaGradualDifficulty name=len ret=r
@spec
        requires self.inv()
        ensures r == self.remaining()
*/

/*@extract fn file=src/mania/difficulty/gradual.rs impl=Iterator for=ManiaGradualDifficulty name=nth ret=r subst=Self::Item=>ManiaDifficultyAttributes
@spec
        requires old(self).inv()
        ensures
            final(self).inv(),
            final(self).objects_is_circle@ == old(self).objects_is_circle@,
            final(self).diff_objects@.len() == old(self).diff_objects@.len(),
            r.is_some() <==> n < old(self).remaining(),
            final(self).idx == old(self).idx + (if n < old(self).remaining() { n + 1 } else { old(self).remaining() }),
            r.is_some() ==> r.unwrap().n_objects == final(self).idx as u32 && r.unwrap().n_hold_notes == final(self).note_state.n_hold_notes,
            final(self).note_state.n_hold_notes as int == old(self).note_state.n_hold_notes
                + Self::holds(old(self).objects_is_circle@, (if old(self).idx == 0 { 1int } else { old(self).idx as int }), (if final(self).idx == 0 { 1int } else { final(self).idx as int })),
@loop 1
            invariant
                self.inv(),
                self.objects_is_circle@ == old(self).objects_is_circle@,
                self.diff_objects@.len() == old(self).diff_objects@.len(),
                old(self).idx <= self.idx,
                __skip_iter_k + 1 == self.idx || __skip_iter_take == 0,
                self.idx + (__skip_iter_take - __skip_iter_c) == old(self).idx + take0,
                __skip_iter_c <= __skip_iter_take,
                take0 == 0 || old(self).idx + take0 <= old(self).diff_objects@.len(),
                take0 as int == (if n < old(self).remaining() - 1 { n as int } else if old(self).remaining() == 0 { 0 } else { old(self).remaining() - 1 }),
                self.note_state.n_hold_notes as int == old(self).note_state.n_hold_notes
                    + Self::holds(old(self).objects_is_circle@, (if old(self).idx == 0 { 1int } else { old(self).idx as int }), (if self.idx == 0 { 1int } else { self.idx as int })),
            decreases __skip_iter_take - __skip_iter_c
@before 1 `if self.idx == 0 && take > 0 {`
        let ghost take0 = take;
*/

/*@extract fn file=src/mania/difficulty/gradual.rs impl=Iterator for=ManiaGradualDifficulty name=next ret=r subst=Self::Item=>ManiaDifficultyAttributes
@spec
        requires old(self).inv()
        ensures
            final(self).inv(),
            final(self).objects_is_circle@ == old(self).objects_is_circle@,
            final(self).diff_objects@.len() == old(self).diff_objects@.len(),
            r.is_some() <==> old(self).remaining() > 0,
            r.is_some() ==> final(self).idx == old(self).idx + 1
                && r.unwrap().n_objects == final(self).idx as u32
                && r.unwrap().n_hold_notes == final(self).note_state.n_hold_notes
                && r.unwrap().max_combo == final(self).note_state.curr_combo
                && r.unwrap().is_convert == old(self).is_convert
                && final(self).note_state.n_hold_notes == old(self).note_state.n_hold_notes
                    + (if old(self).idx > 0 && !old(self).objects_is_circle@[old(self).idx as int] { 1u32 } else { 0u32 }),
            r.is_none() ==> final(self).idx == old(self).idx && final(self).note_state == old(self).note_state,
*/
}

/*@extract struct file=src/mania/performance/gradual.rs name=ManiaGradualPerformance */

impl ManiaGradualPerformance {
/*@extract fn file=src/mania/performance/gradual.rs impl=ManiaGradualPerformance name=nth ret=r
@spec
        requires old(self).difficulty.inv()
        ensures
            final(self).difficulty.inv(),
            r.is_some() <==> old(self).difficulty.remaining() > 0,
            final(self).difficulty.idx == old(self).difficulty.idx
                + (if n < old(self).difficulty.remaining() { n + 1 } else { old(self).difficulty.remaining() }),
            final(self).difficulty.remaining() == old(self).difficulty.remaining() - (final(self).difficulty.idx - old(self).difficulty.idx),
*/

/*@extract fn file=src/mania/performance/gradual.rs impl=ManiaGradualPerformance name=next ret=r
@spec
        requires old(self).difficulty.inv()
        ensures
            final(self).difficulty.inv(),
            r.is_some() <==> old(self).difficulty.remaining() > 0,
            final(self).difficulty.idx == old(self).difficulty.idx + (if old(self).difficulty.remaining() > 0 { 1int } else { 0int }),
*/

/*@extract fn file=src/mania/performance/gradual.rs impl=ManiaGradualPerformance name=last ret=r
@spec
        requires old(self).difficulty.inv()
        ensures
            final(self).difficulty.inv(),
            r.is_some() <==> old(self).difficulty.remaining() > 0,
            final(self).difficulty.remaining() == 0,
*/

/*@extract fn file=src/mania/performance/gradual.rs impl=ManiaGradualPerformance name=len ret=r
@spec
        requires self.difficulty.inv()
        ensures r == self.difficulty.remaining()
*/
}

} // verus!
fn main() {}
