//@ unit: count_lemma
//@ assume: the per-call contract `step` below is the one proved on the real code per call by Kani (U11.catch.record for catch; the osu / taiko counting closures have the same shape but are NOT under contract - see DESIGN.md C14)
//@ obl: id=U11.count_lemma.counted fn=lemma_counted props=C14 tier=quick kind=proof
//@ fns: (lemma over the per-call contract of ObjectCountBuilder::record_fruit / record_droplet)
//@ bound: unbounded: all limits n and all call counts (induction)
//@ clause: applying the per-call contract `total` times from (take = n, count = 0) counts exactly min(n, total) objects and leaves take = n - min(n, total)
//@ obl: id=U11.count_lemma.monotone fn=lemma_monotone_and_saturating props=C14 tier=quick kind=proof
//@ fns: (lemma over the per-call contract)
//@ bound: unbounded
//@ clause: the counted amount never decreases as the limit n grows, and any n >= total counts everything (same as not limiting at all)
use vstd::prelude::*;
verus! {

pub open spec fn step(s: (nat, nat)) -> (nat, nat) {
    if s.0 > 0 { ((s.0 - 1) as nat, s.1 + 1) } else { s }
}

pub open spec fn run(s: (nat, nat), calls: nat) -> (nat, nat)
    decreases calls
{
    if calls == 0 { s } else { step(run(s, (calls - 1) as nat)) }
}

pub open spec fn min(a: nat, b: nat) -> nat { if a <= b { a } else { b } }

proof fn lemma_counted(take: nat, total: nat)
    ensures
        run((take, 0), total).1 == min(take, total),
        run((take, 0), total).0 == take - min(take, total),
    decreases total
{
    if total > 0 {
        lemma_counted(take, (total - 1) as nat);
    }
}

proof fn lemma_monotone_and_saturating(n1: nat, n2: nat, total: nat)
    requires n1 <= n2
    ensures
        run((n1, 0), total).1 <= run((n2, 0), total).1,
        n1 >= total ==> run((n1, 0), total).1 == total,
{
    lemma_counted(n1, total);
    lemma_counted(n2, total);
}

} // verus!
fn main() {}
