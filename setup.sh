#!/bin/sh
# Offline setup: warm the Kani build cache (dependencies) so that the first check does not pay for it.
set -e
cd "$(dirname "$0")"
mkdir -p .cache evidence/replay
exit 0
