"""Verus back end (filled in below)."""


def run_units(scratch, obligations):
    raise NotImplementedError
