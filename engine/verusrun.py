"""Verus back end: render unit templates from /repo's working tree (extract.py), verify, map per-function
results to obligations, run must-fail twins as vacuity guards, scan for assumptions."""
import json
import os
import re
from concurrent.futures import ThreadPoolExecutor

import extract
from common import log, offline_env, read, run, write

VERUS_FLAGS = ["--output-json", "--time", "--triggers-mode", "silent"]


def _scan_assumptions(src, unit):
    out = []
    for m in re.finditer(r"assume_specification\s*(?:<[^>]*>)?\s*\[([^\]]*\]?[^\]]*)\]", src):
        out.append("verus unit %s: assume_specification[%s] (std function, contract assumed)" % (unit, re.sub(r"\s+", " ", m.group(1)).strip()))
    for kw, what in ((r"\bassume\s*\(", "assume(..)"), (r"\badmit\s*\(", "admit()"),
                     (r"external_body", "#[verifier::external_body]"), (r"#\[verifier::external\b", "#[verifier::external]"),
                     (r"\baxiom\b", "axiom")):
        n = len(re.findall(kw, re.sub(r"//[^\n]*", "", src)))
        if n:
            out.append("verus unit %s: %d x %s" % (unit, n, what))
    return out


def _verify(path, timeout=600):
    cmd = ["verus", path] + VERUS_FLAGS
    rc, out, wall, timed_out = run(cmd + ["--num-threads", "8"], cwd=os.path.dirname(path), env=offline_env(), timeout=timeout)
    # stdout (json) and stderr (diagnostics) are interleaved in `out`: pull the json object out
    data = None
    i = out.find('{\n  "')
    if i < 0:
        i = out.find("{")
    if i >= 0:
        # json ends at the last closing brace at column 0
        j = out.rfind("\n}")
        if j > i:
            try:
                data = json.loads(out[i:j + 2])
            except Exception:
                data = None
    diag = (out[:i] if i >= 0 else out) + (out[out.rfind("\n}") + 2:] if data is not None else "")
    return data, diag, wall, timed_out, " ".join(cmd)


def _fn_results(data, modname):
    res = {}
    if not data:
        return res
    for mod in data.get("times-ms", {}).get("smt", {}).get("smt-run-module-times", []):
        for f in mod.get("function-breakdown", []):
            name = f["function"]
            if name.startswith(modname + "::"):
                name = name[len(modname) + 2:]
            prev = res.get(name)
            ok = bool(f.get("success"))
            res[name] = dict(success=ok and (prev["success"] if prev else True),
                             time_s=(prev["time_s"] if prev else 0.0) + f.get("time-micros", 0) / 1e6,
                             rlimit=f.get("rlimit"))
    return res


def run_units(scratch, obligations):
    vdir = os.path.join(scratch, "verus")
    os.makedirs(vdir, exist_ok=True)
    units = []
    for o in obligations:
        if o.unit not in units:
            units.append(o.unit)
    results, cmds, extraction, raw = {}, [], [], {}
    for u in units:
        obls = [o for o in obligations if o.unit is u]
        modname = "v_" + u.name
        path = os.path.join(vdir, modname + ".rs")
        try:
            src, notes = extract.render(read(u.path))
        except extract.ExtractError as e:
            for o in obls:
                results[o.id] = dict(status="undecided", reason=str(e), failed=[], n_checks=0, solver_s=0.0, wall_s=0.0)
            continue
        extraction += ["verus unit %s: %s" % (u.name, n) for n in notes]
        write(path, src)
        scan = _scan_assumptions(src, u.name)
        data, diag, wall, timed_out, cmd = _verify(path)
        cmds.append(cmd)
        raw["verus:" + u.name] = diag[-6000:]
        vr = (data or {}).get("verification-results", {})
        fres = _fn_results(data, modname)
        compile_error = data is None or (vr.get("encountered-error") and vr.get("verified", 0) == 0 and vr.get("errors", 0) == 0) \
            or vr.get("encountered-vir-error")
        rlimit_hit = "Resource limit" in diag or "rlimit" in diag.lower() and "exceeded" in diag.lower()
        # must-fail twins (vacuity guard): the same function with `ensures false` must be rejected
        twins = [o for o in obls if o.extra.get("twin") == "yes"]
        twin_bad = {}
        if twins and not compile_error:
            def one(o):
                fn = o.harness.split("::")[-1]
                # falsify exactly this function (Type::name), not namesakes in other impl blocks
                tsrc, _ = extract.render(read(u.path), falsify=o.harness if "::" in o.harness else fn)
                tpath = os.path.join(vdir, "%s_twin_%s.rs" % (modname, re.sub(r"\W", "_", o.harness)))
                write(tpath, tsrc)
                d, dg, _, _, _ = _verify(tpath)
                fr = _fn_results(d, os.path.basename(tpath)[:-3])
                r = fr.get(o.harness)
                return o.id, (r is None or r["success"])
            with ThreadPoolExecutor(max_workers=4) as ex:
                for oid, bad in ex.map(one, twins):
                    twin_bad[oid] = bad
        for o in obls:
            if timed_out:
                results[o.id] = dict(status="undecided", reason="verus timeout", failed=[], n_checks=0, solver_s=0.0, wall_s=wall)
                continue
            if compile_error:
                errs = [l for l in diag.splitlines() if l.startswith("error")][:6]
                results[o.id] = dict(status="undecided", reason="unsupported construct / verus rejected the extracted unit: " + " | ".join(errs),
                                     failed=[], n_checks=0, solver_s=0.0, wall_s=wall, verifier_output=diag[-6000:])
                continue
            r = fres.get(o.harness)
            if r is None:
                results[o.id] = dict(status="undecided", reason="lost anchor: function %s not in verus results" % o.harness,
                                     failed=[], n_checks=0, solver_s=0.0, wall_s=wall)
                continue
            if r["success"]:
                if twin_bad.get(o.id):
                    results[o.id] = dict(status="undecided", reason="vacuity guard: `ensures false` twin of %s was accepted (contradictory precondition?)" % o.harness,
                                         failed=[], n_checks=1, solver_s=r["time_s"], wall_s=wall)
                else:
                    results[o.id] = dict(status="ok", failed=[], n_checks=1, solver_s=r["time_s"], wall_s=wall,
                                         assumption_scan=scan, rlimit=r["rlimit"])
            else:
                # which diagnostics belong to this function is not given by verus; carry all of them
                msgs = re.findall(r"^error: ([^\n]*)\n\s*--> [^\n]*:(\d+):", diag, re.M)
                if rlimit_hit:
                    results[o.id] = dict(status="undecided", reason="verus resource limit exceeded in %s" % o.harness,
                                         failed=[], n_checks=1, solver_s=r["time_s"], wall_s=wall, verifier_output=diag[-6000:])
                else:
                    results[o.id] = dict(status="fail", failed=[dict(description="verus: %s rejected (%s)" % (
                        o.harness, "; ".join("%s @line %s" % m for m in msgs[:4])), category="verus")],
                        n_checks=1, solver_s=r["time_s"], wall_s=wall, verifier_output=diag[-8000:])
    return results, cmds, extraction, raw
