"""Structural (extractor-level) obligations."""


def run(obligations):
    raise NotImplementedError
