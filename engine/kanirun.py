"""Kani back end: inject harness modules into a scratch copy of /repo's working tree, run
cargo-kani once for all harnesses of a property, classify every CBMC check, obtain and replay
counterexamples with Kani's concrete playback (which executes the *native* crate code)."""
import json
import os
import re
import shutil

from common import (KANI_TARGET, copy_repo, log, offline_env, read, run, write)

KANI_FLAGS = ["-Z", "function-contracts", "-Z", "stubbing", "-Z", "unstable-options"]


class KaniError(Exception):
    pass


def prepare(scratch, units):
    """scratch/repo := copy of /repo working tree with one `#[cfg(kani)] mod` line per unit appended
    to the unit's target file (and contract attributes inserted above anchored fns).
    Returns a list describing exactly what was changed (goes into the evidence)."""
    repo = os.path.join(scratch, "repo")
    copy_repo(repo)
    udir = os.path.join(scratch, "units")
    os.makedirs(udir, exist_ok=True)
    changes = []
    for u in units:
        upath = os.path.join(udir, u.name + ".rs")
        shutil.copyfile(u.path, upath)
        tgt = os.path.join(repo, u.target)
        if not os.path.isfile(tgt):
            raise KaniError("lost anchor: target file %s of unit %s does not exist" % (u.target, u.name))
        src = read(tgt)
        for anchor, insert, afile in u.attrs:
            apath = os.path.join(repo, afile) if afile else tgt
            asrc = read(apath) if afile else src
            n = asrc.count(anchor)
            if n != 1:
                raise KaniError("lost anchor: %r occurs %d times in %s (unit %s)" % (anchor, n, afile or u.target, u.name))
            i = asrc.index(anchor)
            ls = asrc.rfind("\n", 0, i) + 1
            indent = re.match(r"\s*", asrc[ls:]).group(0)
            asrc = asrc[:ls] + indent + insert + "\n" + asrc[ls:]
            changes.append("%s: inserted `%s` above `%s`" % (afile or u.target, insert, anchor))
            if afile:
                write(apath, asrc)
            else:
                src = asrc
        line = '\n#[cfg(kani)] #[path = "%s"] mod __verif_%s;\n' % (upath, u.name)
        above = (u.meta.get("inject-above") or [None])[0]
        if above:
            n = src.count(above)
            if n != 1:
                raise KaniError("lost anchor: %r occurs %d times in %s (unit %s)" % (above, n, u.target, u.name))
            i = src.index(above)
            ls = src.rfind("\n", 0, i) + 1
            write(tgt, src[:ls] + line.strip("\n") + "\n" + src[ls:])
            changes.append("%s: inserted `#[cfg(kani)] mod __verif_%s` above `%s` (text of contracts/kani/%s)" % (
                u.target, u.name, above, os.path.basename(u.path)))
        else:
            write(tgt, src + line)
            changes.append("%s: appended `#[cfg(kani)] mod __verif_%s` (text of contracts/kani/%s)" % (
                u.target, u.name, os.path.basename(u.path)))
    return changes


def _classify(check, obl):
    """-> 'ok' | 'fail' | 'undecided' | 'ignore' for one CBMC check entry"""
    st = check.get("status", "")
    cat = (check.get("category") or "").lower()
    desc = check.get("description", "")
    if st in ("Success", "Unreachable", "Satisfied", "Covered"):
        return "ok"
    if cat == "nan":
        # CBMC's optional "NaN on <op>" checks: producing NaN is not a panic in Rust; contracts that
        # care about NaN state it explicitly with is_nan().
        return "ignore"
    if cat in ("cover", "code_coverage") or st in ("Unsatisfiable", "Uncovered", "Uncoverable"):
        # a kani::cover! that is not satisfiable = vacuous precondition -> undecided (guard misbehaves)
        return "undecided" if st != "Failure" else "fail"
    if st == "Failure":
        if cat == "unwind" or "unwinding assertion" in desc:
            return "fail" if obl.extra.get("unwind") == "obligation" else "undecided"
        if cat == "unsupported_construct" or "is not currently supported by Kani" in desc:
            return "undecided"
        return "fail"
    return "undecided"


def run_harnesses(scratch, obligations, jobs=16, harness_timeout=900, overall_timeout=None, playback=False):
    """Run all harnesses in one cargo-kani invocation. Returns (results, cmdline, raw_output).
    results: obl.id -> dict(status=ok|fail|undecided, failed=[...], undecided=[...], n_checks, solver_s, wall_s)"""
    repo = os.path.join(scratch, "repo")
    out_json = os.path.join(scratch, "kani-out-%d.json" % (1 if playback else 0))
    if os.path.exists(out_json):
        os.remove(out_json)
    names = {}
    cmd = ["cargo", "kani"] + KANI_FLAGS + ["--exact", "--output-format", "terse",
                                            "--harness-timeout", "%ds" % harness_timeout,
                                            "--export-json", out_json]
    if os.environ.get("VERIF_KANI_SOLVER"):
        cmd += ["--solver", os.environ["VERIF_KANI_SOLVER"]]
    if playback:
        cmd += ["-Z", "concrete-playback", "--concrete-playback=print"]
    else:
        cmd += ["-j", str(max(1, min(jobs, len(obligations))))]
    for o in obligations:
        full = o.unit.module_path() + "::" + o.harness
        names[full] = o
        cmd += ["--harness", full]
    env = offline_env({"CARGO_TARGET_DIR": KANI_TARGET})
    if overall_timeout is None:
        overall_timeout = 300 + harness_timeout * ((len(obligations) + jobs - 1) // jobs + 1)
    rc, out, wall, timed_out = run(cmd, cwd=repo, env=env, timeout=overall_timeout)
    results = {}
    data = None
    if os.path.exists(out_json):
        try:
            data = json.loads(read(out_json))
        except Exception as e:  # truncated file
            log("kani: cannot parse export json:", e)
    if data is None:
        reason = "timeout" if timed_out else "cargo-kani produced no result file (compile error or tool crash), rc=%s" % rc
        errs = [l for l in out.splitlines() if l.startswith("error")][:20]
        for o in obligations:
            results[o.id] = dict(status="undecided", reason=reason, errors=errs, failed=[], undecided=[], n_checks=0,
                                 solver_s=0.0, wall_s=wall)
        return results, " ".join(cmd), out
    stats = {c["harness_id"]: (c.get("cbmc_stats") or {}) for c in data.get("cbmc", [])}
    errs = {e["harness_id"]: e for e in data.get("error_details", [])}
    seen = set()
    for r in data.get("verification_results", {}).get("results", []):
        hid = r["harness_id"]
        o = names.get(hid)
        if o is None:
            continue
        seen.add(hid)
        failed, undec, ignored = [], [], 0
        checks = r.get("checks", [])
        for c in checks:
            k = _classify(c, o)
            item = {"description": c.get("description", ""), "category": c.get("category"),
                    "function": c.get("function"), "location": c.get("location"), "status": c.get("status")}
            if k == "fail":
                failed.append(item)
            elif k == "undecided":
                undec.append(item)
            elif k == "ignore":
                ignored += 1
        st = stats.get(hid) or {}
        solver = float(st.get("runtime_decision_procedure_s", 0.0) or 0.0)
        status = "ok"
        reason = ""
        if failed:
            status = "fail"
        elif undec:
            status = "undecided"
            reason = "; ".join(sorted({u["description"] for u in undec}))[:400]
        elif r.get("status") != "Success":
            # kani says failure but every failed check was of an ignored class (NaN) -> ok;
            # anything else (timeout, crash) -> undecided
            e = errs.get(hid, {})
            only_ignored = ignored > 0 and e.get("error_type") == "verification_failure"
            if not only_ignored:
                status = "undecided"
                reason = "kani status %s / %s" % (r.get("status"), e.get("error_type") or e.get("exit_status"))
        if status == "ok" and not checks:
            status, reason = "undecided", "no checks generated (vacuous harness)"
        results[o.id] = dict(status=status, reason=reason, failed=failed, undecided=undec, n_checks=len(checks),
                             ignored_nan_checks=ignored, solver_s=solver,
                             symex_s=float(st.get("runtime_symex_s", 0.0) or 0.0),
                             wall_s=r.get("duration_ms", 0) / 1000.0)
    for full, o in names.items():
        if full not in seen:
            e = errs.get(full, {})
            results[o.id] = dict(status="undecided", reason="harness did not report a result (%s)" % (
                e.get("error_type") or ("timeout" if timed_out else "not found / lost anchor")), failed=[], undecided=[],
                n_checks=0, solver_s=0.0, wall_s=0.0)
    return results, " ".join(cmd), out


_TEST_RE = re.compile(r"```\n(/// Test generated for harness.*?)\n```", re.S)


def counterexamples(scratch, obl, harness_timeout=900):
    """Re-run one failed harness alone with concrete playback; returns list of
    dict(check=..., test_name=..., test_src=..., values=[comment-decoded values])."""
    res, cmd, out = run_harnesses(scratch, [obl], jobs=1, harness_timeout=harness_timeout, playback=True)
    tests = []
    for m in _TEST_RE.finditer(out):
        src = m.group(1)
        name = re.search(r"fn (kani_concrete_playback_\w+)\(", src)
        chk = re.search(r"/// Check for `([^`]*)`: \"(.*)\"\s*$", src, re.M)
        vals = re.findall(r"^\s*// (.*)$", src, re.M)
        byts = re.findall(r"^\s*vec!\[([0-9, ]*)\],?$", src, re.M)
        tests.append(dict(test_name=name.group(1) if name else None,
                          check=(chk.group(2).strip('"') if chk else ""), check_class=(chk.group(1) if chk else ""),
                          values=vals, bytes=[[int(x) for x in b.split(",") if x.strip()] for b in byts],
                          test_src=src))
    return tests, cmd


def playback(scratch, obl, tests, timeout=300):
    """Append the generated unit tests to the scratch copy of the unit file and execute them natively
    (`cargo kani playback`): real code, no CBMC, no stubs. Returns per-test outcome."""
    upath = os.path.join(scratch, "units", obl.unit.name + ".rs")
    base = read(upath)
    body = "\n\n#[cfg(test)]\nmod __verif_playback {\n    use super::*;\n"
    for t in tests:
        if t["test_name"]:
            body += "\n".join("    " + l for l in t["test_src"].splitlines()) + "\n"
    body += "}\n"
    write(upath, base + body)
    repo = os.path.join(scratch, "repo")
    env = offline_env({"CARGO_TARGET_DIR": KANI_TARGET, "RUST_BACKTRACE": "0"})
    outcomes = []
    try:
        for t in tests:
            if not t["test_name"]:
                continue
            cmd = ["cargo", "kani", "playback", "-Z", "concrete-playback", "--", t["test_name"], "--exact",
                   "--test-threads", "1"]
            # test names are matched by substring on the full path; our names are unique
            cmd = ["cargo", "kani", "playback", "-Z", "concrete-playback", "--", t["test_name"]]
            rc, out, wall, timed_out = run(cmd, cwd=repo, env=env, timeout=timeout)
            ran = re.search(r"running (\d+) test", out)
            panicked = re.search(r"panicked at ([^\n]*):\n([^\n]*)", out)
            if "there were still these concrete values left over" in out or "ran out of concrete values" in out.lower():
                # the native run consumed a different number of kani::any() values than the verifier's run (the
                # harness depends on a verification stub): this is not a reproduction
                outcome = "playback-mismatch"
            elif timed_out:
                outcome = "hang"     # native execution did not finish within the watchdog
            elif ran and ran.group(1) != "0" and re.search(r"test result: FAILED", out):
                outcome = "panicked"
            elif ran and ran.group(1) != "0" and re.search(r"test result: ok", out):
                outcome = "passed"
            else:
                outcome = "not-run"
            outcomes.append(dict(test_name=t["test_name"], check=t["check"], outcome=outcome,
                                 panic_location=panicked.group(1) if panicked else None,
                                 panic_message=panicked.group(2) if panicked else None,
                                 wall_s=round(wall, 2), cmd=" ".join(cmd),
                                 output_tail=out[-1500:] if outcome in ("not-run",) else None))
    finally:
        write(upath, base)
    return outcomes
