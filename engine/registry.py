"""Obligation registry.

The registry is not a separate table: it is read from `//@ key: value` lines in
the contract files themselves (contracts/kani/*.rs, contracts/verus/*.rs,
contracts/struct/*.py) so that a contract and its registration cannot drift.

Kani unit header:
    //@ unit: <name>
    //@ target: <path of the /repo source file the module is appended to>
    //@ assume: <an assumption every obligation of this unit rests on>      (repeatable)
    //@ attr: anchor=`<exact source line fragment>` insert=`<attribute text>` (repeatable)
    //@ inject-above: <exact source line fragment>   place the `mod` line above that line (inside an inline module)
    //@ modpath: <module path of the enclosing inline module>                (required with inject-above)
Per obligation (directly above the harness):
    //@ obl: id=<id> harness=<fn name> props=C12,C05 tier=quick|thorough kind=proof|bounded [finding=<key>]
    //@ bound: <what is bounded / why complete>
    //@ clause: <contract clause text>                                       (repeatable)
    //@ assume: <extra assumption of this obligation>                        (repeatable)
"""
import glob
import os
import re

from common import CONTRACTS, read


class Obligation:
    def __init__(self, **kw):
        self.id = kw["id"]
        self.props = kw["props"]
        self.tier = kw.get("tier", "quick")
        self.kind = kw.get("kind", "proof")
        self.backend = kw["backend"]
        self.unit = kw["unit"]
        self.harness = kw.get("harness")     # kani: fn name; verus: fn name(s) inside the verus file
        self.bound = kw.get("bound", "")
        self.clauses = kw.get("clauses", [])
        self.assumes = kw.get("assumes", [])
        self.extra = kw.get("extra", {})

    def as_sample(self):
        return {"obligation": self.id, "backend": self.backend, "kind": self.kind,
                "unit": self.unit.name, "harness": self.harness, "bound": self.bound,
                "clause": " ".join(self.clauses)}


class Unit:
    def __init__(self, name, backend, path):
        self.name = name
        self.backend = backend
        self.path = path
        self.target = None
        self.assumes = []
        self.attrs = []        # (anchor, insert)
        self.obligations = []
        self.meta = {}

    def module_path(self):
        """Rust module path of the injected child module (kani)."""
        if self.meta.get("modpath"):
            return self.meta["modpath"][0] + "::__verif_" + self.name
        t = self.target
        assert t.startswith("src/") and t.endswith(".rs")
        parts = t[4:-3].split("/")
        if parts[-1] in ("mod", "lib"):
            parts = parts[:-1]
        return "::".join(parts + ["__verif_" + self.name])


_KV = re.compile(r'(\w+)=(`[^`]*`|"[^"]*"|\S+)')


def _kv(s):
    d = {}
    for k, v in _KV.findall(s):
        if v[:1] in "`\"":
            v = v[1:-1]
        d[k] = v
    return d


def _parse_file(path, backend):
    unit = None
    pending = None
    units = []
    for line in read(path).splitlines():
        m = re.match(r"\s*(?://|#)@\s*(\w[\w-]*):\s*(.*)$", line)
        if not m:
            continue
        key, val = m.group(1), m.group(2).strip()
        if key == "unit":
            unit = Unit(val, backend, path)
            units.append(unit)
            pending = None
        elif unit is None:
            raise ValueError("%s: //@ %s before //@ unit" % (path, key))
        elif key == "target":
            unit.target = val
        elif key == "attr":
            d = _kv(val)
            unit.attrs.append((d["anchor"], d["insert"], d.get("file")))
        elif key == "obl":
            d = _kv(val)
            pending = Obligation(id=d["id"], harness=d.get("harness") or d.get("fn"), props=d["props"].split(","),
                                 tier=d.get("tier", "quick"), kind=d.get("kind", "proof"), backend=backend,
                                 unit=unit, extra=d)
            unit.obligations.append(pending)
        elif key == "bound":
            pending.bound = (pending.bound + " " + val).strip()
        elif key == "clause":
            pending.clauses.append(val)
        elif key == "assume":
            (pending.assumes if pending is not None else unit.assumes).append(val)
        elif key == "fns":
            tgt = pending.extra if pending is not None else unit.meta
            tgt.setdefault("fns_list", [])
            tgt["fns_list"] += [x.strip() for x in val.split(",") if x.strip()]
        else:
            unit.meta.setdefault(key, []).append(val)
    return units


def load():
    units = []
    for p in sorted(glob.glob(os.path.join(CONTRACTS, "kani", "*.rs"))):
        units += _parse_file(p, "kani")
    for p in sorted(glob.glob(os.path.join(CONTRACTS, "verus", "*.rs"))):
        units += _parse_file(p, "verus")
    for p in sorted(glob.glob(os.path.join(CONTRACTS, "struct", "*.py"))):
        units += _parse_file(p, "struct")
    ids = {}
    for u in units:
        for o in u.obligations:
            if o.id in ids:
                raise ValueError("duplicate obligation id " + o.id)
            ids[o.id] = o
    return units


def select(units, prop, tier):
    """Obligations of `prop` that run in `tier` (thorough includes quick)."""
    out = []
    for u in units:
        for o in u.obligations:
            if prop in o.props and (tier == "thorough" or o.tier == "quick"):
                out.append(o)
    return out
