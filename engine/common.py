"""Shared paths and helpers for the /verif engine."""
import json
import os
import re
import shutil
import subprocess
import sys
import tempfile
import time

VERIF = os.path.dirname(os.path.dirname(os.path.abspath(__file__)))
REPO = os.environ.get("VERIF_REPO", "/repo")
CONTRACTS = os.path.join(VERIF, "contracts")
EVIDENCE = os.path.join(VERIF, "evidence")
# build caches always live in the real /verif (gitignored) so that background
# snapshots (`vp run`) reuse them instead of rebuilding dependencies
CACHE = os.environ.get("VERIF_CACHE", "/verif/.cache")
# replay files of runs against /repo itself live with the evidence; runs against a patched copy (VERIF_REPO, used by
# tools/run_seed.sh) keep theirs in the cache so that they never mix with /repo's evidence
REPLAY_DIR = os.path.join(EVIDENCE, "replay") if REPO == "/repo" else os.path.join(CACHE, "replay-copy")
KANI_TARGET = os.path.join(CACHE, "kani-target")
KNOWN_FINDINGS = os.path.join(VERIF, "known_findings.json")

EXIT_OK, EXIT_VIOLATION, EXIT_UNDECIDED = 0, 1, 2


def log(*a):
    print(*a, file=sys.stderr, flush=True)


def offline_env(extra=None):
    env = dict(os.environ)
    env["CARGO_NET_OFFLINE"] = "true"
    env.setdefault("CARGO_TERM_COLOR", "never")
    if extra:
        env.update(extra)
    return env


def run(cmd, cwd=None, env=None, timeout=None, stdin=None):
    """Run a command, return (rc, stdout+stderr text, wall seconds, timed_out)."""
    t0 = time.time()
    try:
        p = subprocess.Popen(cmd, cwd=cwd, env=env, stdout=subprocess.PIPE,
                             stderr=subprocess.STDOUT, stdin=subprocess.DEVNULL,
                             start_new_session=True, text=True, errors="replace")
        try:
            out, _ = p.communicate(timeout=timeout)
            return p.returncode, out, time.time() - t0, False
        except subprocess.TimeoutExpired:
            import signal
            try:
                os.killpg(p.pid, signal.SIGKILL)
            except ProcessLookupError:
                pass
            out, _ = p.communicate()
            return -9, out, time.time() - t0, True
    except FileNotFoundError as e:
        return 127, str(e), time.time() - t0, False


def make_scratch(tag):
    parent = os.environ.get("VERIF_SCRATCH_PARENT", tempfile.gettempdir())
    d = tempfile.mkdtemp(prefix="verif-%s-" % tag, dir=parent)
    return d


def copy_repo(dst):
    """Copy /repo's *current working tree* (not HEAD) into dst, without build output / VCS data."""
    os.makedirs(dst, exist_ok=True)
    rc, out, _, _ = run(["rsync", "-a", "--delete", "--exclude", "/target", "--exclude", "/.git",
                         REPO.rstrip("/") + "/", dst.rstrip("/") + "/"])
    if rc != 0:
        raise RuntimeError("rsync failed: " + out)
    os.makedirs(os.path.join(dst, ".cargo"), exist_ok=True)
    with open(os.path.join(dst, ".cargo", "config.toml"), "w") as f:
        f.write("[net]\noffline = true\n")


def rmtree(d):
    shutil.rmtree(d, ignore_errors=True)


def repo_rev():
    rc, out, _, _ = run(["git", "-C", REPO, "rev-parse", "HEAD"])
    head = out.strip() if rc == 0 else "unknown"
    rc, out, _, _ = run(["git", "-C", REPO, "status", "--porcelain", "--untracked-files=no"])
    dirty = bool(out.strip()) if rc == 0 else None
    return head, dirty


def read(path):
    with open(path, encoding="utf-8") as f:
        return f.read()


def write(path, text):
    os.makedirs(os.path.dirname(path), exist_ok=True)
    with open(path, "w", encoding="utf-8") as f:
        f.write(text)


def write_json(path, obj):
    write(path, json.dumps(obj, indent=1, sort_keys=False) + "\n")
