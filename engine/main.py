#!/usr/bin/env python3
"""./check <Cxx> [--tier quick|thorough] [--only OBL[,OBL]] [--replay FILE] [--keep-scratch] [--list]

exit 0  every selected obligation discharged on /repo's current working tree (KNOWN-FINDING lines allowed)
exit 1  >=1 obligation failed that known_findings.json does not list; prints
        VIOLATION property=<id> replay=<path>[ no-failing-input-found]
exit 2  undecided (lost anchor, unsupported construct, solver timeout, tool crash, vacuity guard tripped)
"""
import argparse
import json
import os
import re
import shutil
import sys
import time

sys.path.insert(0, os.path.dirname(os.path.abspath(__file__)))

import kanirun  # noqa: E402
import registry  # noqa: E402
import structrun  # noqa: E402
import verusrun  # noqa: E402
from common import (CACHE, EVIDENCE, EXIT_OK, EXIT_UNDECIDED, EXIT_VIOLATION, KNOWN_FINDINGS, REPLAY_DIR, VERIF, log,  # noqa: E402
                    make_scratch, read, repo_rev, rmtree, write_json)

TRUSTED_BASE = [
    "Kani 0.68.0 / CBMC 6.11.0 / CaDiCaL (bit-precise, incl. IEEE-754 floats); rustc front end of Kani's pinned nightly",
    "Verus 0.2026.09.13 + bundled Z3; vstd specifications of Vec/slice/integer operations",
    "the engine itself: registry parser, extractor rewrites R1-R8 (listed per run in coverage.extraction), result classifier",
]


def load_findings():
    if not os.path.exists(KNOWN_FINDINGS):
        return []
    return json.loads(read(KNOWN_FINDINGS)).get("findings", [])


def finding_for(findings, prop, obl_id, desc):
    for f in findings:
        props = f.get("properties") or [f.get("property")]
        if prop in props and f["obligation"] == obl_id and re.search(f["check"], desc):
            return f
    return None


def main():
    ap = argparse.ArgumentParser()
    ap.add_argument("prop", nargs="?")
    ap.add_argument("--tier", default=os.environ.get("VERIF_TIER") or "quick", choices=["quick", "thorough"])
    ap.add_argument("--only", default=None)
    ap.add_argument("--replay", default=None)
    ap.add_argument("--keep-scratch", action="store_true")
    ap.add_argument("--list", action="store_true")
    ap.add_argument("--jobs", type=int, default=int(os.environ.get("VERIF_JOBS", "0")))
    ap.add_argument("--no-evidence", action="store_true")
    ap.add_argument("--harness-timeout", type=int, default=0)
    args = ap.parse_args()
    if not args.jobs:
        # the thorough tier's harnesses are memory hungry (several GB each): fewer in parallel
        args.jobs = 16 if args.tier == "quick" else 4
    seed = int(os.environ.get("VERIF_SEED", "0") or 0)   # no random choices are made anywhere; recorded only

    units = registry.load()
    if args.list:
        for u in units:
            for o in u.obligations:
                print("%-34s %-7s %-8s %-8s %-20s %s" % (o.id, o.backend, o.tier, o.kind, ",".join(o.props), o.harness))
        return EXIT_OK
    if args.replay:
        return do_replay(units, args)
    if not args.prop:
        ap.error("property id required")
    prop = args.prop
    obls = registry.select(units, prop, args.tier)
    if args.only:
        want = set(args.only.split(","))
        obls = [o for o in obls if o.id in want]
    if not obls:
        print("undecided: no obligation registered for %s in tier %s" % (prop, args.tier))
        return EXIT_UNDECIDED

    t0 = time.time()
    head, dirty = repo_rev()
    findings = load_findings()
    scratch = make_scratch(prop.lower())
    results = {}
    cmds = []
    extraction = []
    raw = {}
    try:
        # ---- Verus obligations: extract real functions, verify ------------------------------------
        v_obls = [o for o in obls if o.backend == "verus"]
        if v_obls:
            vres, vcmds, vextr, vraw = verusrun.run_units(scratch, v_obls)
            results.update(vres)
            cmds += vcmds
            extraction += vextr
            raw.update(vraw)
        # ---- structural (extractor-level) obligations ---------------------------------------------
        s_obls = [o for o in obls if o.backend == "struct"]
        if s_obls:
            results.update(structrun.run(s_obls))
        # ---- Kani obligations ---------------------------------------------------------------------
        k_obls = [o for o in obls if o.backend == "kani"]
        if k_obls:
            k_units = []
            for o in k_obls:
                if o.unit not in k_units:
                    k_units.append(o.unit)
            try:
                extraction += kanirun.prepare(scratch, k_units)
                ht = args.harness_timeout or max([int(o.extra.get("budget", 0) or 0) for o in k_obls] + [1200 if args.tier == "quick" else 3600])
                kres, kcmd, kout = kanirun.run_harnesses(scratch, k_obls, jobs=args.jobs, harness_timeout=ht)
                cmds.append(kcmd)
                results.update(kres)
                raw["kani"] = kout[-6000:]
                os.makedirs(os.path.join(CACHE, "logs"), exist_ok=True)
                with open(os.path.join(CACHE, "logs", "%s-%s-kani.log" % (prop, args.tier)), "w") as f:
                    f.write(kout)
                if any(r.get("errors") for r in kres.values()):
                    log("\n".join(l for l in kout.splitlines() if l.startswith("error"))[:3000])
                    if len(k_units) > 1 and all(r.get("errors") is not None and r["status"] == "undecided" for r in kres.values()):
                        # the combined build failed to compile: one unit's private access may have been broken by a
                        # change in /repo. Do not let that blind the other units: build and run each unit alone.
                        log("combined build failed; falling back to one build per unit")
                        for u in k_units:
                            u_obls = [o for o in k_obls if o.unit is u]
                            sub = os.path.join(scratch, "unit-" + u.name)
                            os.makedirs(sub, exist_ok=True)
                            try:
                                kanirun.prepare(sub, [u])
                                ures, ucmd, uout = kanirun.run_harnesses(sub, u_obls, jobs=args.jobs, harness_timeout=ht)
                                cmds.append(ucmd)
                                for rr in ures.values():
                                    rr["scratch"] = sub      # counterexample / replay runs use this unit's own build
                                results.update(ures)
                            except kanirun.KaniError as e:
                                for o in u_obls:
                                    results[o.id] = dict(status="undecided", reason=str(e), failed=[], undecided=[],
                                                         n_checks=0, solver_s=0.0, wall_s=0.0)
                            _ = shutil
            except kanirun.KaniError as e:
                for o in k_obls:
                    results[o.id] = dict(status="undecided", reason=str(e), failed=[], undecided=[], n_checks=0,
                                         solver_s=0.0, wall_s=0.0)
        # ---- failed obligations: counterexample + native replay -----------------------------------
        violations, known, undecided = [], [], []
        for o in obls:
            r = results.get(o.id) or dict(status="undecided", reason="no result", failed=[], n_checks=0, solver_s=0, wall_s=0)
            results[o.id] = r
            if r["status"] == "undecided":
                undecided.append(o)
            if r["status"] != "fail":
                if r["status"] == "ok":
                    # a replay file left by an earlier failing run of this obligation is stale now
                    stale = os.path.join(REPLAY_DIR, "%s-%s.json" % (prop, re.sub(r"[^\w.-]", "_", o.id)))
                    if os.path.exists(stale):
                        os.remove(stale)
                continue
            descs = [c["description"] for c in r["failed"]] or ["(verifier reported failure)"]
            matched = [finding_for(findings, prop, o.id, d) for d in descs]
            if all(matched):
                r["status"] = "known-finding"
                seen = set()
                for f in matched:
                    if f["what"] not in seen:
                        seen.add(f["what"])
                        known.append((o, f))
                continue
            replay = build_replay(scratch, prop, o, r, raw, args)
            if o.backend == "verus" and replay.get("paired_kani_status") == "ok":
                # The proof no longer goes through, but the paired harness - the same clauses checked by CBMC on the
                # real (un-extracted) function for small sizes - still passes: the proof has to be re-done for the
                # changed code. That is "undecided", not an alarm (a refactoring that keeps the behaviour must never
                # be reported as a violation).
                r["status"] = "undecided"
                r["reason"] = ("verus proof of %s no longer verifies, but the paired bounded Kani obligation %s still holds on "
                               "the real function: proof needs re-doing (see %s)" % (o.harness, o.extra.get("pair"), replay["path"]))
                undecided.append(o)
                continue
            violations.append((o, replay))
    finally:
        if args.keep_scratch:
            log("scratch kept at", scratch)
        else:
            rmtree(scratch)

    wall = time.time() - t0
    # ---- report -------------------------------------------------------------------------------------
    for o, f in known:
        print("KNOWN-FINDING: property=%s obligation=%s %s" % (prop, o.id, f["what"]))
    for o in undecided:
        print("UNDECIDED property=%s obligation=%s reason=%s" % (prop, o.id, results[o.id].get("reason", "")))
    for o, rp in violations:
        tail = "" if rp["reproduced"] else " no-failing-input-found"
        print("VIOLATION property=%s replay=%s%s" % (prop, rp["path"], tail))
        log("  obligation %s failed: %s" % (o.id, "; ".join(c["description"] for c in results[o.id]["failed"])[:500]))
    if not args.no_evidence and not args.only:
        write_evidence(prop, args.tier, seed, obls, results, cmds, extraction, wall, head, dirty, known, violations)
    n_ok = sum(1 for o in obls if results[o.id]["status"] == "ok")
    print("%s tier=%s obligations=%d discharged=%d known-findings=%d violations=%d undecided=%d wall=%.1fs" % (
        prop, args.tier, len(obls), n_ok, len(known), len(violations), len(undecided), wall))
    if violations:
        return EXIT_VIOLATION
    if undecided:
        return EXIT_UNDECIDED
    return EXIT_OK


def build_replay(scratch, prop, o, r, raw, args):
    scratch = r.get("scratch") or scratch
    os.makedirs(REPLAY_DIR, exist_ok=True)
    path = os.path.join(REPLAY_DIR, "%s-%s.json" % (prop, re.sub(r"[^\w.-]", "_", o.id)))
    rp = dict(property=prop, obligation=o.id, backend=o.backend, unit=o.unit.name, harness=o.harness,
              clause=" ".join(o.clauses), bound=o.bound, failed_checks=r["failed"], reproduced=False,
              counterexamples=[], playback=[], replay_mismatch=False, path=path)
    pair = None
    if o.backend == "kani":
        pair = o
    elif o.backend == "verus":
        rp["verifier_output"] = r.get("verifier_output", "")[-8000:]
        # Verus gives no model: look for an input with the paired Kani harness of the same contract
        pid = o.extra.get("pair")
        if pid:
            for u in registry.load():
                for x in u.obligations:
                    if x.id == pid:
                        pair = x
            rp["paired_kani_obligation"] = pid
    elif o.backend == "struct":
        rp["verifier_output"] = r.get("reason", "")
    if pair is not None:
        try:
            if o.backend != "kani":
                kanirun.prepare(scratch, [pair.unit])
                pres, _, _ = kanirun.run_harnesses(scratch, [pair], jobs=1, harness_timeout=900)
                rp["paired_kani_status"] = pres[pair.id]["status"]
                if pres[pair.id]["status"] != "fail":
                    pair = None
            if pair is not None:
                tests, cmd = kanirun.counterexamples(scratch, pair)
                rp["counterexample_cmd"] = cmd
                rp["counterexamples"] = [dict(check=t["check"], values=t["values"], bytes=t["bytes"],
                                              test_name=t["test_name"], test_src=t["test_src"]) for t in tests]
                rp["playback_unit"] = pair.unit.name
                if pair.extra.get("stubs") == "yes":
                    # Kani's playback executes the native code WITHOUT verification stubs; a harness whose
                    # assertions are about what a stub recorded cannot be replayed that way.
                    rp["playback_skipped"] = ("harness uses kani::stub (call-site contract): the counterexample above is the "
                                              "verifier's; it is not re-executed natively")
                else:
                    outs = kanirun.playback(scratch, pair, tests)
                    rp["playback"] = outs
                    rp["reproduced"] = any(x["outcome"] in ("panicked", "hang") for x in outs)
                    rp["replay_mismatch"] = bool(tests) and not rp["reproduced"]
        except Exception as e:  # replay is best effort; the violation stands on the failed obligation
            rp["replay_error"] = repr(e)
    if o.backend == "kani":
        rp["verifier_output"] = raw.get("kani", "")[-4000:]
    write_json(path, rp)
    return rp


def do_replay(units, args):
    rp = json.loads(read(args.replay))
    if not rp.get("counterexamples"):
        print("replay: %s carries no concrete input (obligation %s); verifier output follows" % (args.replay, rp["obligation"]))
        print(rp.get("verifier_output", ""))
        return EXIT_OK
    uname = rp.get("playback_unit") or rp["unit"]
    unit = [u for u in units if u.name == uname and u.backend == "kani"]
    if not unit:
        print("undecided: unit %s not found" % uname)
        return EXIT_UNDECIDED
    obl = [o for o in unit[0].obligations if o.harness == rp["harness"]] or unit[0].obligations[:1]
    scratch = make_scratch("replay")
    try:
        kanirun.prepare(scratch, [unit[0]])
        outs = kanirun.playback(scratch, obl[0], rp["counterexamples"])
    finally:
        if not args.keep_scratch:
            rmtree(scratch)
    bad = False
    for x in outs:
        print("replay %s: %s %s %s" % (x["test_name"], x["outcome"], x.get("panic_location") or "", x.get("panic_message") or ""))
        bad |= x["outcome"] in ("panicked", "hang")
    print("REPRODUCED on /repo's current tree" if bad else "not reproduced on /repo's current tree")
    return EXIT_VIOLATION if bad else EXIT_OK


def write_evidence(prop, tier, seed, obls, results, cmds, extraction, wall, head, dirty, known, violations):
    proof = [o for o in obls if o.kind == "proof"]
    bounded = [o for o in obls if o.kind != "proof"]
    ok = lambda o: results[o.id]["status"] == "ok"  # noqa: E731

    def sample(o):
        r = results[o.id]
        s = o.as_sample()
        s.update(status=r["status"], cbmc_checks=r.get("n_checks"), solver_s=round(r.get("solver_s", 0.0), 3),
                 wall_s=round(r.get("wall_s", 0.0), 2), functions=o.extra.get("fns_list", []))
        if r.get("reason"):
            s["reason"] = r["reason"]
        if r.get("failed"):
            s["failed_checks"] = [c["description"] for c in r["failed"]][:10]
        return s

    assumptions = []
    for o in obls:
        for a in o.unit.assumes + o.assumes:
            if a not in assumptions:
                assumptions.append(a)
    for o in obls:
        for a in results[o.id].get("assumption_scan", []):
            if a not in assumptions:
                assumptions.append(a)
    fns = []
    for o in obls:
        for f in o.extra.get("fns_list", []):
            if f not in fns:
                fns.append(f)
    cov = dict(
        obligations=len(proof), discharged=sum(1 for o in proof if ok(o)),
        checker_cmd=" && ".join(cmds) if cmds else "(none)",
        trusted_base=TRUSTED_BASE,
        samples=[sample(o) for o in proof],
        bounded_checks=[sample(o) for o in bounded],
        bounded_total=len(bounded), bounded_passed=sum(1 for o in bounded if ok(o)),
        functions_under_contract=fns,
        cbmc_checks_total=sum(results[o.id].get("n_checks") or 0 for o in obls if o.backend == "kani"),
        solver_time_s=round(sum(results[o.id].get("solver_s", 0.0) or 0.0 for o in obls), 3),
        by_backend={b: sum(1 for o in obls if o.backend == b and ok(o)) for b in ("kani", "verus", "struct")},
        extraction=extraction,
        known_findings=[dict(obligation=o.id, what=f["what"]) for o, f in known],
        undecided=[o.id for o in obls if results[o.id]["status"] == "undecided"],
        repo_head=head, repo_dirty=dirty,
        exhaustive=False,
    )
    level = "proof" if proof else "other"
    # report at the level claimed in MANIFEST.json (a property claimed as `other` because its deciding obligations are
    # bounded stand-ins stays `other` even if a few of its obligations are complete proofs)
    try:
        man = json.loads(read(os.path.join(VERIF, "MANIFEST.json")))
        claimed = [c["level_claimed"]["category"] for c in man.get("checks", []) if c["property_id"] == prop]
        if claimed and (claimed[0] == "other" or (claimed[0] == "proof" and proof)):
            level = claimed[0]
    except Exception:
        pass
    cov["explanation"] = (
        "Contract obligations on real rosu-pp functions. `obligations/discharged` count only obligations whose harness is a "
        "complete proof for its stated domain (Verus: unbounded; Kani: loop-free or unwinding-certified full-domain). "
        "`bounded_checks` are bounded stand-ins (container length fixed per harness) and are never counted as proved.")
    ev = dict(property_id=prop, tier=tier, seed=seed, level=level, coverage=cov, assumptions=assumptions,
              wall_s=round(wall, 2), violations=len(violations))
    write_json(os.path.join(EVIDENCE, prop + ".json"), ev)


if __name__ == "__main__":
    sys.exit(main())
