"""Mechanical extraction of real functions from /repo into a Verus file.

A unit template (contracts/verus/<unit>.rs) is ordinary Verus text plus directive comments

    /*@extract fn file=<path> [impl=<Type>] name=<fn> [as=<new name>] [lift=<kind> ...]
    @spec
        requires ..., ensures ...,          (spliced between signature and body)
    @start
        <ghost / proof text spliced right after the body's opening brace>
    @loop <k>
        invariant ..., decreases ...        (spliced between the k-th loop header and its body)
    @before <n> `<statement text>`        (a trailing `...` makes the text a prefix: matches up to the next `;`)
        <text spliced on the line before the n-th occurrence of that statement>
    @after <n> `<statement text>`
        <text spliced after that statement>
    @end
        <text spliced right before the body's closing brace>
    */

    /*@extract struct file=<path> name=<Type> */

Each directive is replaced by the item copied from /repo's *current working tree*; the body text is kept
verbatim except for the rewrites R1..R8 below, every application of which is reported.

  R1  drop attributes / doc comments / visibility / `const` in front of `fn`, and `pub` on struct fields
      `ret=<name>` names the return value: `-> T` becomes `-> (name: T)`; `subst=A=>B` writes an associated type in the
      signature out as the concrete type; `impl=<Trait> for=<Type>` selects a trait impl block
  R2  `likely(e)` / `unlikely(e)` -> `(e)`
  R3  `for i in a..b {B}` -> `let mut i = a; while i < b {B'; i += 1;}` with `i += 1;` inserted before every
      `continue` that targets this loop  (Verus: for-loops do not support `continue`)
  R4  `Box<[T]>` in struct fields -> `Vec<T>`
  R8  `for x in E.iter_mut() {B}` -> index loop over E with `*x` replaced by `E[__k]`
  R10 `let it = E.iter().skip(S);` ... `for x in it.take(T) {B}` -> index loop visiting E[S], E[S+1], ... while in range,
      at most T elements (std slice-iterator semantics, assumed); zip form `A.iter().zip(B.iter().skip(Z)).skip(S)`
      pairs A[k] with B[k+Z] while both are in range
  R11 `E.filter(|_| c)` (Option, c a boolean variable) -> `match (E, c) { (v, true) => v, (_, false) => None }`
Anything else Verus cannot parse is reported by Verus itself and makes the unit *undecided* (exit 2).
"""
import os
import re

from common import REPO, read


class ExtractError(Exception):
    """lost anchor / unsupported construct -> undecided"""


# ---------------------------------------------------------------------------------------------------
# a tiny Rust lexer: enough to skip comments, strings, chars and to match braces


def _skip_ws_comment_string(s, i):
    """If s[i:] starts a comment / string / char literal return index after it, else i."""
    if s.startswith("//", i):
        j = s.find("\n", i)
        return len(s) if j < 0 else j
    if s.startswith("/*", i):
        depth, j = 1, i + 2
        while j < len(s) and depth:
            if s.startswith("/*", j):
                depth += 1
                j += 2
            elif s.startswith("*/", j):
                depth -= 1
                j += 2
            else:
                j += 1
        return j
    c = s[i]
    if c == '"':
        j = i + 1
        while j < len(s) and s[j] != '"':
            j += 2 if s[j] == "\\" else 1
        return j + 1
    m = re.match(r'b?r(#*)"', s[i:])
    if m and (i == 0 or not (s[i - 1].isalnum() or s[i - 1] == "_")):
        end = '"' + m.group(1)
        j = s.find(end, i + len(m.group(0)))
        return len(s) if j < 0 else j + len(end)
    if c == "'":
        m = re.match(r"'(\\.[^']*|[^\\'])'", s[i:])
        if m:
            return i + len(m.group(0))
        return i + 1  # lifetime
    return i


def match_brace(s, i):
    """s[i] == '{' -> index of the matching '}'"""
    assert s[i] == "{"
    depth = 0
    j = i
    while j < len(s):
        k = _skip_ws_comment_string(s, j)
        if k != j:
            j = k
            continue
        if s[j] == "{":
            depth += 1
        elif s[j] == "}":
            depth -= 1
            if depth == 0:
                return j
        j += 1
    raise ExtractError("unbalanced braces")


def code_positions(s):
    """yield indices of s that are code (not inside comments/strings)"""
    j = 0
    while j < len(s):
        k = _skip_ws_comment_string(s, j)
        if k != j:
            j = k
            continue
        yield j
        j += 1


def find_code(s, pattern, start=0):
    """first regex match at a code position >= start"""
    rx = re.compile(pattern)
    code = set(code_positions(s))
    for m in rx.finditer(s, start):
        if m.start() in code:
            return m
    return None


def find_all_code(s, pattern):
    rx = re.compile(pattern)
    code = set(code_positions(s))
    return [m for m in rx.finditer(s) if m.start() in code]


# ---------------------------------------------------------------------------------------------------


def locate_impl(src, ty, for_ty=None):
    if for_ty:
        m = find_code(src, r"\bimpl(?:<[^>{]*>)?\s+%s\s+for\s+%s\b[^{;]*\{" % (re.escape(ty), re.escape(for_ty)))
        if not m:
            raise ExtractError("lost anchor: impl %s for %s" % (ty, for_ty))
        o = m.end() - 1
        return o, match_brace(src, o)
    m = find_code(src, r"\bimpl(?:<[^>{]*>)?\s+(?:[\w:<>', ]+\s+for\s+)?%s\b[^{;]*\{" % re.escape(ty))
    if not m:
        raise ExtractError("lost anchor: impl block for %s" % ty)
    o = m.end() - 1
    return o, match_brace(src, o)


def locate_fn(src, name, lo=0, hi=None):
    hi = len(src) if hi is None else hi
    for m in find_all_code(src, r"\bfn\s+%s\b" % re.escape(name)):
        if lo <= m.start() < hi:
            # body open brace: first '{' at paren/angle depth 0 after the signature
            j = m.end()
            depth = 0
            code = None
            while j < hi:
                k = _skip_ws_comment_string(src, j)
                if k != j:
                    j = k
                    continue
                ch = src[j]
                if ch in "([":
                    depth += 1
                elif ch in ")]":
                    depth -= 1
                elif ch == "{" and depth == 0:
                    code = j
                    break
                elif ch == ";" and depth == 0:
                    break
                j += 1
            if code is None:
                continue
            end = match_brace(src, code)
            # start of item: include preceding attrs / docs / visibility on the same or previous lines
            ls = src.rfind("\n", 0, m.start()) + 1
            return ls, m.start(), code, end
    raise ExtractError("lost anchor: fn %s" % name)


def locate_struct(src, name, kw="struct"):
    m = find_code(src, r"\b%s\s+%s\b[^{;]*\{" % (kw, re.escape(name)))
    if not m:
        raise ExtractError("lost anchor: struct %s" % name)
    o = m.end() - 1
    return m.start(), o, match_brace(src, o)


# ---------------------------------------------------------------------------------------------------
# rewrites


def _loop_headers(body):
    """code matches of loop keywords in source order"""
    return find_all_code(body, r"\b(for|while|loop)\b")


def _body_open(body, after):
    j = after
    depth = 0
    while j < len(body):
        k = _skip_ws_comment_string(body, j)
        if k != j:
            j = k
            continue
        ch = body[j]
        if ch in "([":
            depth += 1
        elif ch in ")]":
            depth -= 1
        elif ch == "{" and depth == 0:
            return j
        j += 1
    raise ExtractError("loop without body")


def _continues_targeting(body_inner):
    """positions of `continue` in body_inner that target the enclosing loop (not nested loops, not labelled)"""
    out = []
    nested = []
    for m in _loop_headers(body_inner):
        o = _body_open(body_inner, m.end())
        nested.append((m.start(), match_brace(body_inner, o)))
    for m in find_all_code(body_inner, r"\bcontinue\b\s*;"):
        if any(a <= m.start() <= b for a, b in nested):
            continue
        out.append(m.start())
    return out


def rewrite_for_loops(body, notes):
    """R3 and R8, applied innermost-last by repeated scanning."""
    guard = 0
    while True:
        guard += 1
        if guard > 50:
            raise ExtractError("for-loop rewriting did not terminate")
        m = None
        for c in find_all_code(body, r"\bfor\s+(\w+)\s+in\s+"):
            m = c
            break
        if not m:
            return body
        var = m.group(1)
        if var == "_":
            var = "__for_i%d" % guard      # `for _ in a..b`: the counter needs a name
        o = _body_open(body, m.end())
        e = match_brace(body, o)
        iter_expr = body[m.end():o].strip()
        inner = body[o + 1:e]
        ls = body.rfind("\n", 0, m.start()) + 1
        indent = re.match(r"[ \t]*", body[ls:]).group(0)
        rng = re.match(r"^(.+?)\s*\.\.\s*(=?)\s*(.+)$", iter_expr)
        itm = re.match(r"^(.+)\.iter_mut\(\)$", iter_expr)
        if rng and not iter_expr.startswith("("):
            a, incl, b = rng.group(1), rng.group(2), rng.group(3)
            cmpop = "<=" if incl else "<"
            inc = "%s += 1;" % var
            conts = _continues_targeting(inner)
            for p in reversed(conts):
                inner = inner[:p] + inc + " " + inner[p:]
            new = "let mut %s = %s;\n%swhile %s %s %s {%s\n%s    %s\n%s}" % (
                var, a, indent, var, cmpop, b, inner.rstrip(), indent, inc, indent)
            notes.append("R3: `for %s in %s` -> while loop (%d `continue` patched)" % (var, iter_expr, len(conts)))
        elif itm:
            coll = itm.group(1)
            k = "__k_" + var
            if _continues_targeting(inner):
                raise ExtractError("unsupported construct: continue inside iter_mut loop")
            inner2, n = re.subn(r"\*\s*%s\b" % re.escape(var), "%s[%s]" % (coll, k), inner)
            if re.search(r"\b%s\b" % re.escape(var), inner2):
                raise ExtractError("unsupported construct: iter_mut loop variable used other than by deref")
            new = "let mut %s: usize = 0;\n%swhile %s < %s.len() {%s\n%s    %s += 1;\n%s}" % (
                k, indent, k, coll, inner2.rstrip(), indent, k, indent)
            notes.append("R8: `for %s in %s` -> index loop, `*%s` -> `%s[%s]` (%d occurrences)" % (var, iter_expr, var, coll, k, n))
        else:
            raise ExtractError("unsupported construct: `for %s in %s`" % (var, iter_expr))
        body = body[:m.start()] + new + body[e + 1:]


def rewrite_skip_take(body, notes):
    """R10: `let NAME = E.iter().skip(S);` ... `for VAR in NAME.take(T) {B}`  ->  index loop over E that visits the
    elements S, S+1, ... while in range, at most T of them (the std semantics of slice::iter().skip(S).take(T))."""
    m = find_code(body, r"let\s+(\w+)\s*=\s*([\w.\s]+?)\s*\.iter\(\)\s*\.skip\(")
    zipm = find_code(body, r"let\s+(\w+)\s*=\s*([\w.\s]+?)\s*\.iter\(\)\s*\.zip\(\s*([\w.\s]+?)\s*\.iter\(\)\s*\.skip\((\d+)\)\s*\)\s*\.skip\(")
    coll2, off2 = None, 0
    if zipm and (not m or zipm.start() <= m.start()):
        # R10 (zip form): `A.iter().zip(B.iter().skip(Z)).skip(S)` pairs A[k] with B[k + Z]
        m = zipm
        coll2, off2 = re.sub(r"\s+", "", zipm.group(3)), int(zipm.group(4))
    if not m:
        return body
    name, coll = m.group(1), re.sub(r"\s+", "", m.group(2))
    # skip argument: up to the matching ')' followed by ';'
    j = m.end()
    depth = 1
    while j < len(body) and depth:
        if body[j] == "(":
            depth += 1
        elif body[j] == ")":
            depth -= 1
        j += 1
    skip_expr = body[m.end():j - 1].strip()
    semi = body.find(";", j)
    if semi < 0 or body[j:semi].strip():
        raise ExtractError("unsupported construct: iterator chain after skip()")
    body = body[:m.start()] + "let __%s_skip: usize = %s;" % (name, skip_expr) + body[semi + 1:]
    f = find_code(body, r"\bfor\s+(\w+|\(\s*\w+\s*,\s*\w+\s*\))\s+in\s+%s\s*\.take\(" % re.escape(name))
    if not f:
        raise ExtractError("lost anchor: `for .. in %s.take(..)`" % name)
    var = f.group(1)
    var2 = None
    if coll2 is not None:
        pm = re.match(r"\(\s*(\w+)\s*,\s*(\w+)\s*\)", var)
        if not pm:
            raise ExtractError("unsupported construct: zip loop without a pair pattern")
        var, var2 = pm.group(1), pm.group(2)
    o = _body_open(body, f.end() - 1)      # scan from the `(` of take(
    take_expr = body[f.end():o].strip()
    if not take_expr.endswith(")"):
        raise ExtractError("unsupported construct: take() argument")
    take_expr = take_expr[:-1].strip()
    e = match_brace(body, o)
    inner = body[o + 1:e]
    if _continues_targeting(inner):
        raise ExtractError("unsupported construct: continue inside skip/take loop")
    ls = body.rfind("\n", 0, f.start()) + 1
    indent = re.match(r"[ \t]*", body[ls:]).group(0)
    cond2 = ""
    bind2 = ""
    if coll2 is not None:
        cond2 = " && __%s_k < %s.len() - %d" % (name, coll2, off2) if off2 else " && __%s_k < %s.len()" % (name, coll2)
        bind2 = "\n%s    let %s = &%s[__%s_k + %d];" % (indent, var2, coll2, name, off2)
        cond2 = " && %s.len() >= %d" % (coll2, off2) + cond2
    new = ("let mut __%(n)s_k: usize = __%(n)s_skip;\n%(i)slet __%(n)s_take: usize = %(t)s;\n%(i)slet mut __%(n)s_c: usize = 0;\n"
           "%(i)swhile __%(n)s_c < __%(n)s_take && __%(n)s_k < %(c)s.len()%(c2)s {\n%(i)s    let %(v)s = &%(c)s[__%(n)s_k];%(b2)s%(b)s\n"
           "%(i)s    __%(n)s_k += 1;\n%(i)s    __%(n)s_c += 1;\n%(i)s}") % dict(n=name, i=indent, t=take_expr, c=coll, v=var, b=inner.rstrip(), c2=cond2, b2=bind2)
    notes.append("R10: `let %s = %s.iter()%s.skip(%s)` + `for .. in %s.take(%s)` -> index loop (std slice-iterator semantics assumed)" % (
        name, coll, (".zip(%s.iter().skip(%d))" % (coll2, off2)) if coll2 else "", skip_expr, name, take_expr))
    return body[:f.start()] + new + body[e + 1:]


def rewrite_option_filter(body, notes):
    """R11: `E.filter(|_| c)` with a plain boolean variable c  ->  `{ let __r = E; if c { __r } else { None } }`"""
    rx = re.compile(r"([\w.]+\(\))\s*\.filter\(\|_\|\s*(\w+)\)")
    ms = [m for m in rx.finditer(body)]
    for m in reversed(ms):
        # E is evaluated first (it has side effects), then the flag decides whether its value is kept
        body = body[:m.start()] + "match (%s, %s) { (v, true) => v, (_, false) => None }" % (m.group(1), m.group(2)) + body[m.end():]
        notes.append("R11: `%s.filter(|_| %s)` -> `match (%s, %s) { (v, true) => v, (_, false) => None }`" % (m.group(1), m.group(2), m.group(1), m.group(2)))
    return body


def rewrite_hints(body, notes):
    n = 0
    for kw in ("likely", "unlikely"):
        body, k = re.subn(r"(?<![\w.])%s\(" % kw, "(", body)
        n += k
    if n:
        notes.append("R2: %d likely()/unlikely() wrappers removed" % n)
    return body


def clean_signature(sig, notes):
    """R1 on the text from line start to the body brace."""
    orig = sig
    sig = re.sub(r"^\s*///[^\n]*\n", "", sig, flags=re.M)
    sig = re.sub(r"^\s*#\[[^\]]*\]\s*\n", "", sig, flags=re.M)
    sig = re.sub(r"#\[[^\]]*\]\s*", "", sig)
    sig = re.sub(r"\bpub(\s*\([^)]*\))?\s+", "", sig)
    sig = re.sub(r"\bconst\s+fn\b", "fn", sig)
    if sig != orig:
        notes.append("R1: attributes/visibility/const removed from signature")
    return sig.strip()


# ---------------------------------------------------------------------------------------------------
# directive processing

_DIRECTIVE = re.compile(r"/\*@extract\s+(fn|struct|enum)\s+([^\n]*?)(?:[ \t]*\*/|\n(.*?)\*/)", re.S)
_KV = re.compile(r"(\w+)=(\S+)")


def _sections(text):
    """split directive payload into [(header, body)]"""
    out = []
    cur = None
    for line in text.splitlines():
        m = re.match(r"\s*@(spec|start|end|loop|before|after|replace-sig)\b(.*)$", line)
        if m:
            cur = [m.group(1), m.group(2).strip(), []]
            out.append(cur)
        elif cur is not None:
            cur[2].append(line)
    return [(a, b, "\n".join(c)) for a, b, c in out]


def _norm(s):
    return re.sub(r"\s+", " ", s.strip())


def _find_stmt(body, stmt, n):
    """start,end offsets of the n-th (1-based) occurrence of statement text (whitespace-insensitive) at code positions"""
    prefix = stmt.endswith("...")
    if prefix:
        stmt = stmt[:-3]
    pat = r"\s*".join(re.escape(tok) for tok in re.findall(r"\w+|[^\w\s]", stmt))
    if prefix:
        pat += r"[^;]*;"      # anchor given as a prefix: extends to the end of the statement
    ms = find_all_code(body, pat)
    if len(ms) < n:
        raise ExtractError("lost anchor: statement `%s` occurrence %d (found %d)" % (stmt, n, len(ms)))
    return ms[n - 1].start(), ms[n - 1].end()


def extract_fn(kv, payload, notes, falsify=None):
    path = os.path.join(REPO, kv["file"])
    if not os.path.isfile(path):
        raise ExtractError("lost anchor: file %s" % kv["file"])
    src = read(path)
    lo, hi = 0, len(src)
    if "impl" in kv:
        lo, hi = locate_impl(src, kv["impl"], kv.get("for"))
    # include attribute/doc lines above the fn
    ls, fpos, bo, be = locate_fn(src, kv["name"], lo, hi)
    sig = clean_signature(src[ls:bo], notes)
    body = src[bo + 1:be]
    body = rewrite_hints(body, notes)
    secs = _sections(payload)
    # statement anchors and loop anchors are resolved on the rewritten body
    body = rewrite_skip_take(body, notes)
    body = rewrite_option_filter(body, notes)
    body = rewrite_for_loops(body, notes)
    inserts = []  # (offset, text)
    spec = ""
    for kind, arg, text in secs:
        if kind == "spec":
            spec = text
            if falsify in (kv["name"], "%s::%s" % (kv.get("for") or kv.get("impl") or "", kv["name"])):
                # must-fail twin (vacuity guard): same function, same precondition, postcondition `false`
                if re.search(r"\bensures\b", spec):
                    spec = re.sub(r"\bensures\b", "ensures false,", spec, count=1)
                else:
                    spec = spec + "\n ensures false,"
        elif kind == "replace-sig":
            # only the *name* may change (two instantiations of one generic fn); parameters stay verbatim
            raise ExtractError("replace-sig is not supported")
        elif kind == "start":
            inserts.append((0, "\n" + text + "\n"))
        elif kind == "end":
            inserts.append((len(body.rstrip()), "\n" + text + "\n"))
        elif kind == "loop":
            k = int(arg)
            hs = _loop_headers(body)
            if len(hs) < k:
                raise ExtractError("lost anchor: loop %d of %s (found %d loops)" % (k, kv["name"], len(hs)))
            o = _body_open(body, hs[k - 1].end())
            inserts.append((o, "\n" + text + "\n"))
        elif kind in ("before", "after"):
            m = re.match(r"(\d+)\s+`(.*)`\s*$", arg)
            if not m:
                raise ExtractError("bad directive: @%s %s" % (kind, arg))
            a, b = _find_stmt(body, m.group(2), int(m.group(1)))
            if kind == "before":
                inserts.append((body.rfind("\n", 0, a) + 1, text + "\n"))
            else:
                nl = body.find("\n", b)
                inserts.append((len(body) if nl < 0 else nl + 1, text + "\n"))
    for off, text in sorted(inserts, key=lambda x: -x[0]):
        body = body[:off] + text + body[off:]
    if "subst" in kv:
        # signature-only substitution of an associated type by the concrete type it stands for
        a, b = kv["subst"].split("=>", 1)
        if a not in sig:
            raise ExtractError("lost anchor: `%s` not in the signature of %s" % (a, kv["name"]))
        sig = sig.replace(a, b)
        notes.append("R1: `%s` written out as `%s` in the signature" % (a, b))
    if "ret" in kv:
        m = re.search(r"->\s*([^{]+?)\s*(where\b.*)?$", sig, re.S)
        if not m:
            raise ExtractError("lost anchor: fn %s has no return type to name" % kv["name"])
        sig = sig[:m.start()] + "-> (%s: %s) %s" % (kv["ret"], m.group(1), m.group(2) or "")
        notes.append("R1: return value named `%s` (Verus syntax, no semantic change)" % kv["ret"])
    if "as" in kv:
        sig = re.sub(r"\bfn\s+%s\b" % re.escape(kv["name"]), "fn " + kv["as"], sig)
    notes.append("extracted fn %s%s from %s (%d body lines)" % (
        (kv["impl"] + "::") if "impl" in kv else "", kv["name"], kv["file"], body.count("\n")))
    return "%s\n%s\n{%s}\n" % (sig, spec, body)


def extract_struct(kv, notes, kw="struct"):
    path = os.path.join(REPO, kv["file"])
    if not os.path.isfile(path):
        raise ExtractError("lost anchor: file %s" % kv["file"])
    src = read(path)
    s, o, e = locate_struct(src, kv["name"], kw)
    text = src[s:e + 1]
    t2 = re.sub(r"^\s*///[^\n]*\n", "", text, flags=re.M)
    t2 = re.sub(r"\bpub(\s*\([^)]*\))?\s+", "", t2)
    t3 = re.sub(r"Box<\[([^\]]+)\]>", r"Vec<\1>", t2)
    if t3 != t2:
        notes.append("R4: Box<[T]> field(s) of struct %s -> Vec<T>" % kv["name"])
    notes.append("extracted %s %s from %s" % (kw, kv["name"], kv["file"]))
    return "pub " + t3 + "\n"


def render(template_text, falsify=None):
    """-> (verus source, notes)"""
    notes = []

    def repl(m):
        kind = m.group(1)
        kv = dict(_KV.findall(m.group(2)))
        if kind == "fn":
            return extract_fn(kv, m.group(3) or "", notes, falsify)
        return extract_struct(kv, notes, kind)

    out = _DIRECTIVE.sub(repl, template_text)
    return out, notes
