use super::*;
use rosu_mods::GameModsLegacy;

fn any_mode() -> GameMode {
    let k: u8 = kani::any();
    match k % 4 { 0 => GameMode::Osu, 1 => GameMode::Taiko, 2 => GameMode::Catch, _ => GameMode::Mania }
}

fn any_empty_map() -> Beatmap {
    let mut m = Beatmap::default();
    m.mode = any_mode();
    m.is_convert = kani::any();
    m.ar = kani::any(); m.cs = kani::any(); m.hp = kani::any(); m.od = kani::any();
    kani::assume(m.ar >= 0.0 && m.ar <= 10.0 && m.cs >= 0.0 && m.cs <= 10.0 && m.hp >= 0.0 && m.hp <= 10.0 && m.od >= 0.0 && m.od <= 10.0);
    m
}

fn class(r: &Result<(), ConvertError>) -> u8 {
    match r { Ok(()) => 0, Err(ConvertError::AlreadyConverted) => 1, Err(ConvertError::Convert { .. }) => 2 }
}

#[kani::proof]
#[kani::unwind(4)]
fn convert_entry_points_agree_on_empty_maps() {
    let map = any_empty_map();
    let target = any_mode();
    let bits: u32 = kani::any();
    let mods: GameMods = GameModsLegacy::from_bits(bits).into();

    let mut a = map.clone();
    let ra = a.convert_mut(target, &mods);
    let rb = map.convert_ref(target, &mods);
    let rc = map.clone().convert(target, &mods);

    let ca = class(&ra);
    let cb = match &rb { Ok(_) => 0, Err(ConvertError::AlreadyConverted) => 1, Err(ConvertError::Convert { .. }) => 2 };
    let cc = match &rc { Ok(_) => 0, Err(ConvertError::AlreadyConverted) => 1, Err(ConvertError::Convert { .. }) => 2 };
    assert!(ca == cb && cb == cc);

    // decision table from the property statement
    let expect = if map.mode == target { 0 } else if map.is_convert { 1 } else if map.mode != GameMode::Osu { 2 } else { 0 };
    assert!(ca == expect);

    if ca == 0 {
        let b = rb.unwrap();
        assert!(b.mode == target && a.mode == target);
        assert!(a.is_convert == (map.is_convert || map.mode != target));
        assert!(b.is_convert == a.is_convert);
        if map.mode == target { assert!(matches!(b, std::borrow::Cow::Borrowed(_))); }
        assert!(a.cs.to_bits() == b.cs.to_bits());
    } else {
        assert!(a.mode == map.mode && a.is_convert == map.is_convert && a.cs.to_bits() == map.cs.to_bits());
    }
}
