use super::*;
use crate::osu::object::{OsuObject, OsuObjectKind};
use crate::osu::difficulty::skills::{aim::Aim, speed::Speed, flashlight::Flashlight};
use crate::osu::difficulty::scaling_factor::ScalingFactor;
use crate::model::mods::GameMods;
use crate::model::beatmap::BeatmapAttributesBuilder;
use rosu_map::util::Pos;

fn stub_eval(_attrs: &mut OsuDifficultyAttributes, _mods: &GameMods, _skills: &OsuSkills) {}
fn stub_process(_s: &mut OsuSkills, _curr: &OsuDifficultyObject<'_>, _objects: &[OsuDifficultyObject<'_>]) {}
fn stub_aim_process<'a>(_s: &mut Aim, _curr: &OsuDifficultyObject<'a>, _objects: &[OsuDifficultyObject<'a>]) {}
fn stub_speed_process<'a>(_s: &mut Speed, _curr: &OsuDifficultyObject<'a>, _objects: &[OsuDifficultyObject<'a>]) {}
fn stub_fl_process<'a>(_s: &mut Flashlight, _curr: &OsuDifficultyObject<'a>, _objects: &[OsuDifficultyObject<'a>]) {}

fn obj(i: usize) -> OsuObject {
    OsuObject { pos: Pos::new(10.0 * i as f32, 0.0), start_time: 500.0 * i as f64, stack_height: 0, stack_offset: Pos::default(), kind: OsuObjectKind::Circle }
}

/// Any state satisfying the representation invariant established by `new`:
/// diff_objects.len() == max(N,1)-1, idx <= diff_objects.len()+1, (N == 0 ==> idx == 0)
fn any_state(n: usize) -> OsuGradualDifficulty {
    let objs: Vec<OsuObject> = (0..n).map(obj).collect();
    let objs: &'static mut [OsuObject] = Box::leak(objs.into_boxed_slice());
    let sf = ScalingFactor::new(5.0);
    let mut diffs = Vec::new();
    for i in 1..n {
        diffs.push(OsuDifficultyObject::new(&objs[i], &objs[i - 1], None, 1.0, i - 1, &sf));
    }
    let mods = GameMods::default();
    let map_attrs = BeatmapAttributesBuilder::new().build();
    let skills = OsuSkills::new(&mods, &sf, &map_attrs, 600.0);
    let idx: usize = kani::any();
    kani::assume(idx <= diffs.len() + 1);
    if n == 0 { kani::assume(idx == 0); }
    let owned: Vec<OsuObject> = (0..n).map(obj).collect();
    OsuGradualDifficulty {
        idx,
        difficulty: Difficulty::new(),
        attrs: OsuDifficultyAttributes::default(),
        skills,
        diff_objects: diffs.into_boxed_slice(),
        osu_objects: OsuObjects::new(owned.into_boxed_slice()),
        _not_clonable: NotClonable,
    }
}

fn step(n: usize) {
    let mut g = any_state(n);
    let idx0 = g.idx;
    let remaining = n - idx0;
    assert!(g.len() == remaining);
    assert!(g.size_hint() == (remaining, Some(remaining)));
    if kani::any() {
        let r = g.next();
        assert!(r.is_some() == (remaining > 0));
        assert!(g.idx == idx0 + usize::from(remaining > 0));
    } else {
        let k: usize = kani::any();
        let r = g.nth(k);
        assert!(r.is_some() == (k < remaining));
        let consumed = if k < remaining { k + 1 } else { remaining };
        assert!(g.idx == idx0 + consumed);
    }
    assert!(g.idx <= g.diff_objects.len() + 1);
}

macro_rules! h { ($name:ident, $n:expr) => {
    #[kani::proof]
    #[kani::unwind(8)]
    #[kani::stub(crate::osu::difficulty::DifficultyValues::eval, stub_eval)]
    #[kani::stub(crate::osu::difficulty::skills::OsuSkills::process, stub_process)]
    #[kani::stub(<Aim as StrainSkill>::process, stub_aim_process)]
    #[kani::stub(<Speed as StrainSkill>::process, stub_speed_process)]
    #[kani::stub(<Flashlight as StrainSkill>::process, stub_fl_process)]
    fn $name() { step($n); }
}; }
h!(osu_gradual_step_n0, 0);
h!(osu_gradual_step_n1, 1);
h!(osu_gradual_step_n2, 2);
h!(osu_gradual_step_n4, 4);
