use super::*;

#[kani::proof]
#[kani::unwind(30)]
fn banana_terminates_realistic() {
    let start: f64 = kani::any();
    let dur: f64 = kani::any();
    kani::assume(start >= 0.0 && start <= 10_800_000.0);
    kani::assume(dur >= 0.0 && dur <= 800.0);
    let b = BananaShower::new(start, start + dur);
    assert!(b.n_bananas <= 18);
}

#[kani::proof]
#[kani::unwind(30)]
fn banana_terminates_decoder_domain() {
    let start: f64 = kani::any();
    let dur: f64 = kani::any();
    kani::assume(start >= 0.0 && start <= 2_147_483_000.0);
    kani::assume(dur >= 0.0 && dur <= 800.0);
    let b = BananaShower::new(start, start + dur);
    assert!(b.n_bananas <= 18);
}
