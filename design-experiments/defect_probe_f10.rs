use rosu_pp::{Beatmap, Difficulty, GradualDifficulty};
fn main() {
    for mode in 0..4 {
        let body = if mode == 3 { "64,192,1000,1,0,0:0:0:0:\n192,192,1500,1,0,0:0:0:0:\n320,192,2000,1,0,0:0:0:0:\n448,192,2500,1,0,0:0:0:0:\n" } else { "100,192,1000,1,0,0:0:0:0:\n200,192,1500,1,0,0:0:0:0:\n300,192,2000,1,0,0:0:0:0:\n400,192,2500,1,0,0:0:0:0:\n" };
        let t = format!("osu file format v14\n\n[General]\nMode: {mode}\n\n[Difficulty]\nCircleSize:4\n\n[TimingPoints]\n0,500,4,2,0,100,1,0\n\n[HitObjects]\n{body}");
        let m: Beatmap = t.parse().unwrap();
        let plain: Vec<u32> = GradualDifficulty::new(Difficulty::new(), &m).map(|a| a.max_combo()).collect();
        let stepped: Vec<u32> = GradualDifficulty::new(Difficulty::new(), &m).step_by(2).map(|a| a.max_combo()).collect();
        let skipped: Vec<u32> = GradualDifficulty::new(Difficulty::new(), &m).skip(10).map(|a| a.max_combo()).collect();
        let mut g = GradualDifficulty::new(Difficulty::new(), &m);
        let nth10 = g.nth(10).map(|a| a.max_combo());
        println!("F10 mode {mode}: plain={plain:?} step_by(2)={stepped:?} skip(10)={skipped:?} nth(10)={nth10:?}");
    }
}
