use rosu_pp::{Beatmap, Difficulty};
use rosu_pp::model::mode::GameMode;
use std::sync::mpsc; use std::time::Duration;

fn main() {
    // F8
    let t = "osu file format v14\n\n[General]\nMode: 2\n\n[TimingPoints]\n0,500,4,2,0,100,1,0\n\n[HitObjects]\n256,192,1200000000,12,0,1200000102,0:0:0:0:\n";
    let m: Beatmap = t.parse().unwrap();
    println!("F8 decoded objects={} suspicion={:?}", m.hit_objects.len(), m.check_suspicion().is_ok());
    let (tx, rx) = mpsc::channel();
    std::thread::spawn(move || { let a = Difficulty::new().calculate(&m); let _ = tx.send(a.stars()); });
    match rx.recv_timeout(Duration::from_secs(5)) { Ok(s) => println!("F8 finished stars={s}"), Err(_) => println!("F8 HANG: no result within 5 s") }

    // F9
    let mut bad = 0; let mut first = None;
    let mut r = 0.5f64;
    while r <= 2.0 { let x = 1.5 * (r / 1.5); if x != r { bad += 1; if first.is_none() { first = Some((r, x)); } } r += 0.01; }
    println!("F9 NC mismatches on 0.01 grid: {bad} first={:?}", first);
    let mut bad = 0; let mut first = None;
    let mut r = 0.5f64;
    while r <= 2.0 { let x = 0.75 * (r / 0.75); if x != r { bad += 1; if first.is_none() { first = Some((r, x)); } } r += 0.01; }
    println!("F9 DC mismatches on 0.01 grid: {bad} first={:?}", first);
    std::process::exit(0);
}
