use super::*;
use std::cmp::Ordering;

fn lt(a: f64, b: f64) -> bool { a.total_cmp(&b) == Ordering::Less }

fn check(n: usize) {
    let mut v: Vec<EffectPoint> = Vec::with_capacity(4);
    let t: [f64; 3] = [kani::any(), kani::any(), kani::any()];
    for i in 0..n { v.push(EffectPoint { time: t[i], kiai: kani::any(), scroll_speed: 1.0 }); }
    if n >= 2 { kani::assume(lt(t[0], t[1])); }
    if n >= 3 { kani::assume(lt(t[1], t[2])); }
    let p = EffectPoint { time: kani::any(), kiai: kani::any(), scroll_speed: 1.0 };
    let pt = p.time;
    <EffectPoint as ControlPoint<Vec<EffectPoint>>>::add(p, &mut v);
    assert!(v.len() == n || v.len() == n + 1);
    let m = v.len();
    if m >= 2 { assert!(lt(v[0].time, v[1].time)); }
    if m >= 3 { assert!(lt(v[1].time, v[2].time)); }
    if m >= 4 { assert!(lt(v[2].time, v[3].time)); }
    let mut found = false;
    let mut i = 0;
    while i < m { if v[i].time.to_bits() == pt.to_bits() { found = true; } i += 1; }
    assert!(found);
}

#[kani::proof]
#[kani::unwind(6)]
fn effect_add_n0() { check(0); }
#[kani::proof]
#[kani::unwind(6)]
fn effect_add_n2() { check(2); }
#[kani::proof]
#[kani::unwind(6)]
fn effect_add_n3() { check(3); }
