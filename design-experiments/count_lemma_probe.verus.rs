use vstd::prelude::*;
verus! {

// contract of ObjectCountBuilder::Regular::{record_fruit, record_droplet} as proved per call by Kani:
//   take > 0  ==> take' == take - 1 && count' == count + 1
//   take == 0 ==> unchanged
pub open spec fn step(s: (nat, nat)) -> (nat, nat) {
    if s.0 > 0 { ((s.0 - 1) as nat, s.1 + 1) } else { s }
}

pub open spec fn run(s: (nat, nat), calls: nat) -> (nat, nat)
    decreases calls
{
    if calls == 0 { s } else { step(run(s, (calls - 1) as nat)) }
}

pub open spec fn min(a: nat, b: nat) -> nat { if a <= b { a } else { b } }

proof fn lemma_counted(take: nat, total: nat)
    ensures
        run((take, 0), total).1 == min(take, total),
        run((take, 0), total).0 == take - min(take, total),
    decreases total
{
    if total > 0 {
        lemma_counted(take, (total - 1) as nat);
    }
}

proof fn lemma_monotone_and_saturating(n1: nat, n2: nat, total: nat)
    requires n1 <= n2
    ensures
        run((n1, 0), total).1 <= run((n2, 0), total).1,
        n1 >= total ==> run((n1, 0), total).1 == total,
{
    lemma_counted(n1, total);
    lemma_counted(n2, total);
}

} // verus!
fn main() {}
