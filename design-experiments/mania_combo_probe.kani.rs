use super::*;

// gradual: increment_combo(.., diff_obj{start_time: s/c, end_time: (s+d)/c}, clock_rate c)
// one-shot: ManiaObject::new adds (d / 100.0) as u32
#[kani::proof]
fn mania_combo_term_equal() {
    let s: f64 = kani::any();
    let d: f64 = kani::any();
    let c: f64 = kani::any();
    kani::assume(s >= 0.0 && s <= 10_800_000.0);
    kani::assume(d >= 0.0 && d <= 100_000.0);
    kani::assume(c >= 0.01 && c <= 100.0);
    let mut st = NoteState::default();
    increment_combo_raw(false, (s / c) * c, ((s + d) / c) * c, &mut st);
    let one_shot = 1 + (d / 100.0) as u32;
    assert!(st.curr_combo == one_shot);
}
