use rosu_pp::{Beatmap, Difficulty, GradualDifficulty};
use rosu_pp::model::mode::GameMode;
use rosu_pp::any::DifficultyAttributes;
use std::collections::BTreeSet;

fn map_from(s: &str) -> Beatmap { s.parse().unwrap() }

fn main() {
    // 1. bpm tie
    let txt = "osu file format v14\n\n[General]\nMode: 0\n\n[TimingPoints]\n0,500,4,2,0,100,1,0\n1000,250,4,2,0,100,1,0\n\n[HitObjects]\n256,192,2000,1,0,0:0:0:0:\n";
    let mut seen = BTreeSet::new();
    for _ in 0..200 { let m = map_from(txt); seen.insert(m.bpm().to_bits()); }
    println!("1. bpm distinct values over 200 runs: {:?}", seen.iter().map(|b| f64::from_bits(*b)).collect::<Vec<_>>());

    // 2. empty-map len
    for mode in [GameMode::Osu, GameMode::Taiko, GameMode::Catch, GameMode::Mania] {
        let mut m = Beatmap::default(); m.mode = mode;
        let mut g = GradualDifficulty::new(Difficulty::new(), &m);
        println!("2. empty {:?}: len={} next_is_some={}", mode, g.len(), g.next().is_some());
    }

    // 3. taiko spinner first
    let hdr = "osu file format v14\n\n[General]\nMode: 1\n\n[TimingPoints]\n0,500,4,2,0,100,1,0\n\n[HitObjects]\n";
    let t3 = format!("{hdr}256,192,1000,12,0,1500,0:0:0:0:\n256,192,2000,1,0,0:0:0:0:\n256,192,2500,1,0,0:0:0:0:\n256,192,3000,1,0,0:0:0:0:\n");
    let m = map_from(&t3);
    let mut g = GradualDifficulty::new(Difficulty::new(), &m);
    let announced = g.len();
    let mut n = 0;
    let mut combos = vec![];
    while let Some(a) = g.next() { n += 1; combos.push(a.max_combo()); if n > 20 { break; } }
    println!("3. taiko [spinner,c,c,c]: announced={} produced={} combos={:?}", announced, n, combos);
    let r = std::panic::catch_unwind(std::panic::AssertUnwindSafe(|| g.len()));
    println!("3. len after exhaustion: {:?}", r.map_err(|_| "PANIC"));
    for i in 1..=4u32 {
        let a = Difficulty::new().passed_objects(i).calculate(&m);
        println!("3. one-shot passed_objects({}) max_combo={} stars={}", i, a.max_combo(), a.stars());
    }

    // 4. taiko two circles
    let t4 = format!("{hdr}256,192,2000,1,0,0:0:0:0:\n256,192,2500,1,0,0:0:0:0:\n");
    let m = map_from(&t4);
    let mut g = GradualDifficulty::new(Difficulty::new(), &m);
    println!("4. taiko [c,c]: len={} next_is_some={}", g.len(), g.next().is_some());
    let a = Difficulty::new().passed_objects(1).calculate(&m);
    println!("4. one-shot passed_objects(1) max_combo={}", a.max_combo());

    // 5. mania acc + four given
    let attrs = rosu_pp::mania::ManiaDifficultyAttributes { stars: 3.0, n_objects: 10, n_hold_notes: 0, max_combo: 10, is_convert: false };
    let st = rosu_pp::mania::ManiaPerformance::new(attrs.clone()).lazer(false).accuracy(90.0).n300(5).n200(0).n100(0).n50(0).generate_state().unwrap();
    println!("5. mania state {:?} total={}", st, st.total_hits());

    // 6. catch combo clamp
    let cattrs = rosu_pp::catch::CatchDifficultyAttributes { stars: 3.0, ar: 9.0, n_fruits: 10, n_droplets: 2, n_tiny_droplets: 4, is_convert: false };
    let st = rosu_pp::catch::CatchPerformance::new(cattrs).combo(100).generate_state().unwrap();
    println!("6. catch state {:?}", st);

    // 7. mania gradual DT with holds
    let mut diffs = 0; let mut total = 0;
    for start in (1000..1400).step_by(7) {
        for dur in [100, 200, 300, 400, 500, 700, 1000] {
            let t = format!("osu file format v14\n\n[General]\nMode: 3\n\n[Difficulty]\nCircleSize:4\n\n[TimingPoints]\n0,500,4,2,0,100,1,0\n\n[HitObjects]\n64,192,500,1,0,0:0:0:0:\n192,192,{start},128,0,{}:0:0:0:0:\n", start + dur);
            let m = map_from(&t);
            for rate in [1.5, 0.75, 1.2] {
                let d = Difficulty::new().clock_rate(rate);
                let g: Vec<_> = GradualDifficulty::new(d.clone(), &m).collect();
                let one = d.calculate(&m);
                total += 1;
                if g.last().map(|a| a.max_combo()) != Some(one.max_combo()) { diffs += 1; if diffs <= 3 { println!("7. mismatch start={start} dur={dur} rate={rate}: gradual={:?} oneshot={}", g.last().map(|a| a.max_combo()), one.max_combo()); } }
            }
        }
    }
    println!("7. mania gradual-vs-oneshot max_combo mismatches: {diffs}/{total}");
}
