use vstd::prelude::*;
use vstd::set_lib::*;
verus! {
global size_of usize == 8;

pub assume_specification [usize::leading_zeros] (x: usize) -> (r: u32)
    ensures (r == 0) == (x & 0x8000_0000_0000_0000usize != 0);

pub assume_specification<T> [<[T]>::swap] (s: &mut [T], a: usize, b: usize)
    requires a < old(s)@.len(), b < old(s)@.len()
    ensures final(s)@ == old(s)@.update(a as int, old(s)@[b as int]).update(b as int, old(s)@[a as int]);

pub struct TandemSorter {
    indices: Vec<usize>,
    should_reset: bool,
}

pub open spec fn MARK() -> usize { 0x8000_0000_0000_0000usize }
pub open spec fn marked(x: usize) -> bool { x & MARK() != 0 }

proof fn lemma_toggle(x: usize)
    ensures
        marked(x ^ MARK()) == !marked(x),
        (x ^ MARK()) ^ MARK() == x,
        !marked(x) ==> x < MARK(),
        x < MARK() ==> !marked(x),
{
    assert(((x ^ 0x8000_0000_0000_0000usize) & 0x8000_0000_0000_0000usize != 0) == !(x & 0x8000_0000_0000_0000usize != 0)) by (bit_vector);
    assert((x ^ 0x8000_0000_0000_0000usize) ^ 0x8000_0000_0000_0000usize == x) by (bit_vector);
    assert(!(x & 0x8000_0000_0000_0000usize != 0) ==> x < 0x8000_0000_0000_0000usize) by (bit_vector);
    assert(x < 0x8000_0000_0000_0000usize ==> !(x & 0x8000_0000_0000_0000usize != 0)) by (bit_vector);
}

proof fn lemma_toggle_all()
    ensures
        forall|x: usize| marked(#[trigger] (x ^ MARK())) == !marked(x),
        forall|x: usize| #[trigger] (x ^ MARK()) ^ MARK() == x,
        forall|x: usize| !#[trigger] marked(x) ==> x < MARK(),
{
    assert forall|x: usize| marked(#[trigger] (x ^ MARK())) == !marked(x) by { lemma_toggle(x); }
    assert forall|x: usize| #[trigger] (x ^ MARK()) ^ MARK() == x by { lemma_toggle(x); }
    assert forall|x: usize| !#[trigger] marked(x) implies x < MARK() by { lemma_toggle(x); }
}

impl TandemSorter {

    pub closed spec fn n(&self) -> int { self.indices@.len() as int }

    /// the permutation stored (mark bit stripped)
    pub closed spec fn perm(&self) -> Seq<int> {
        Seq::new(self.indices@.len(), |k: int| if marked(self.indices@[k]) { (self.indices@[k] ^ MARK()) as int } else { self.indices@[k] as int })
    }

    pub closed spec fn wf(&self, q: Seq<int>) -> bool {
        &&& q.len() == self.n()
        &&& forall|k: int| 0 <= k < self.n() ==> 0 <= #[trigger] self.perm()[k] < self.n()
        &&& forall|k: int| 0 <= k < self.n() ==> 0 <= #[trigger] q[k] < self.n()
        &&& forall|k: int| 0 <= k < self.n() ==> q[#[trigger] self.perm()[k]] == k
        &&& forall|k: int| 0 <= k < self.n() ==> self.perm()[#[trigger] q[k]] == k
        &&& forall|k: int| 0 <= k < self.n() ==> marked(#[trigger] self.indices@[k]) == self.should_reset
    }

    fn idx_is_marked(idx: usize) -> (r: bool)
        ensures r == marked(idx)
    {
        idx.leading_zeros() == 0
    }


    fn sort<T>(&mut self, slice: &mut [T], Ghost(q): Ghost<Seq<int>>)
        requires
            old(self).wf(q),
            old(slice)@.len() == old(self).n(),
        ensures
            final(self).should_reset,
            final(self).perm() =~= old(self).perm(),
            final(self).wf(q),
            final(slice)@.len() == old(slice)@.len(),
            forall|k: int| 0 <= k < old(self).n() ==> #[trigger] final(slice)@[k] == old(slice)@[old(self).perm()[k]],
    {
        let ghost p = self.perm();
        let ghost n = self.n();
        let ghost old_slice = slice@;
        if self.should_reset {
            proof {
                lemma_toggle_all();
            }
            self.toggle_marks();
            self.should_reset = false;
            proof {
                lemma_toggle_all();
                assert forall|k: int| 0 <= k < n implies !marked(#[trigger] self.indices@[k]) && self.indices@[k] as int == p[k] by {
                    lemma_toggle(old(self).indices@[k]);
                }
            }
        }
        proof {
            assert forall|k: int| 0 <= k < n implies !marked(#[trigger] self.indices@[k]) && self.indices@[k] as int == p[k] by { }
        }

        let ghost mut um: Set<int> = set_int_range(0, n);
        proof { lemma_int_range(0, n); }

        let mut i: usize = 0;
        while i < self.indices.len()
            invariant
                0 <= i <= n,
                n == self.indices@.len(), n == slice@.len(), n == p.len(), n == q.len(), n == old_slice.len(),
                forall|k: int| 0 <= k < n ==> 0 <= #[trigger] p[k] < n,
                forall|k: int| 0 <= k < n ==> 0 <= #[trigger] q[k] < n,
                forall|k: int| 0 <= k < n ==> q[#[trigger] p[k]] == k,
                forall|k: int| 0 <= k < n ==> p[#[trigger] q[k]] == k,
                forall|k: int| um.contains(k) <==> (0 <= k < n && !marked(self.indices@[k])),
                forall|k: int| 0 <= k < n && !marked(#[trigger] self.indices@[k]) ==> self.indices@[k] as int == p[k] && slice@[k] == old_slice[k],
                forall|k: int| 0 <= k < n && marked(#[trigger] self.indices@[k]) ==> (self.indices@[k] ^ MARK()) as int == p[k] && slice@[k] == old_slice[p[k]] && marked(self.indices@[q[k]]),
                forall|k: int| 0 <= k < i ==> marked(#[trigger] self.indices@[k]),
            decreases n - i
        {
            let i_idx = self.indices[i];

            if Self::idx_is_marked(i_idx) {
                i += 1;
                continue;
            }

            let mut j = i;
            let mut j_idx = i_idx;

            // When we loop back to the first index, we stop
            while j_idx != i
                invariant
                    n == self.indices@.len(), n == slice@.len(), n == p.len(), n == q.len(), n == old_slice.len(),
                    0 <= i < n, 0 <= j < n,
                    forall|k: int| 0 <= k < n ==> 0 <= #[trigger] p[k] < n,
                    forall|k: int| 0 <= k < n ==> 0 <= #[trigger] q[k] < n,
                    forall|k: int| 0 <= k < n ==> q[#[trigger] p[k]] == k,
                    forall|k: int| 0 <= k < n ==> p[#[trigger] q[k]] == k,
                    forall|k: int| um.contains(k) <==> (0 <= k < n && !marked(self.indices@[k])),
                    !marked(self.indices@[j as int]),
                    j_idx == self.indices@[j as int],
                    forall|k: int| 0 <= k < n && !marked(#[trigger] self.indices@[k]) ==> self.indices@[k] as int == p[k] && (k != j ==> slice@[k] == old_slice[k]),
                    slice@[j as int] == old_slice[i as int],
                    forall|k: int| 0 <= k < n && marked(#[trigger] self.indices@[k]) ==> (self.indices@[k] ^ MARK()) as int == p[k] && slice@[k] == old_slice[p[k]] && (k != i ==> marked(self.indices@[q[k]])),
                    j != i ==> marked(self.indices@[i as int]) && marked(self.indices@[q[j as int]]),
                    forall|k: int| 0 <= k < i ==> marked(#[trigger] self.indices@[k]),
                decreases um.len()
            {
                proof {
                    lemma_toggle(j_idx);
                    // j_idx is in range and unmarked
                    assert(j_idx as int == p[j as int]);
                    assert(q[p[j as int]] == j);
                }
                self.indices[j] = Self::toggle_mark_idx(j_idx);
                slice.swap(j, j_idx);
                proof {
                    um = um.remove(j as int);
                }
                j = j_idx;
                j_idx = self.indices[j];
            }

            proof { lemma_toggle(j_idx); }
            self.indices[j] = Self::toggle_mark_idx(j_idx);
            proof { um = um.remove(j as int); }
            i += 1;
        }

        self.should_reset = true;
        proof {
            lemma_toggle_all();
        }
    }

    fn toggle_marks(&mut self)
        ensures
            final(self).indices@.len() == old(self).indices@.len(),
            forall|k: int| 0 <= k < old(self).indices@.len() ==> #[trigger] final(self).indices@[k] == old(self).indices@[k] ^ MARK(),
            final(self).should_reset == old(self).should_reset,
    {
        let n = self.indices.len();
        let mut t: usize = 0;
        while t < n
            invariant
                t <= n, n == self.indices@.len(), n == old(self).indices@.len(),
                self.should_reset == old(self).should_reset,
                forall|k: int| 0 <= k < t ==> #[trigger] self.indices@[k] == old(self).indices@[k] ^ MARK(),
                forall|k: int| t <= k < n ==> #[trigger] self.indices@[k] == old(self).indices@[k],
            decreases n - t
        {
            let v = Self::toggle_mark_idx(self.indices[t]);
            self.indices.set(t, v);
            t += 1;
        }
    }

    fn toggle_mark_idx(idx: usize) -> (r: usize)
        ensures r == idx ^ MARK()
    {
        proof { assert(!(usize::MAX >> 1) == 0x8000_0000_0000_0000usize) by (compute); }
        idx ^ !(usize::MAX >> 1)
    }
}

} // verus!
fn main() {}
